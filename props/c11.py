"""C11: a successful sync captures every change and converges."""
import hashlib
import json
import os

from hypothesis import strategies as st

import cfparse
import gen
from pbt import Outcome
from prog import decode_step, run_command, cfg_classes, ev_json, register_touch, lose_files
from world import World, RESERVED_PREFIX

PID = "C11"
LEVEL = "exploration"
RULE = ("Hypothesis cases {config, program}: programs of 6..40 steps of file-system operations (create, overwrite, append, truncate, "
        "same-size rewrite, mtime-only change, delete, rename, move/copy within and across disks, mkdir/rmdir, symlinks, hard links, "
        "file<->dir and file<->link replacement, several operations on one path, odd names) interleaved with syncs (plain, -B partial, "
        "-F/-R/-h/-N, kill-after-sync) in all scan orders, threaded or sequential scan, with and without trusted inodes "
        "(--test-fake-uuid). Before every sync `diff` is run and its exit status compared with the verdict computed from the "
        "independently parsed content file and the real tree; after every full sync that exits 0: diff exits 0, list equals the tree "
        "(names, sizes, mtimes incl. ns, link targets, hard-link groups), recorded empty dirs cover the tree's empty dirs, check exits "
        "0, the C06 oracle holds, and the shim trace shows every block of every new/changed file was read. Non-trivial: >=2 "
        "successful full syncs with an update/move/kind-change/inode-reuse between them; distinct = hash of the case.")
ASSUMPTIONS = [
    "empty directories are verified through the recorded state (list prints files and links only, by design)",
    "when the hard-link structure of the tree is ambiguous w.r.t. the recorded one, the diff verdict is not asserted",
    "added or removed empty directories alone do not make diff report a difference (they are not counted by the tool nor by the property)",
]


def variants():
    return ["rel", "shim", "oracle"]


def budget(tier):
    return 120 if tier == "quick" else 3000


def decode_case(raw):
    cfgt, init, prog = raw
    cfg = gen.decode_cfg(cfgt, allow_split=(cfgt[12] % 16 == 3))
    bs, nd = cfg["bs_kib"] * 1024, cfg["ndisks"]
    steps = []
    for sel, t in prog:
        if sel <= 5:
            steps.append(gen.decode_fs(t, bs, nd))
        elif sel <= 8:
            s = gen.decode_sync(t)
            steps.append(s)
        else:
            steps.append({"op": ["touch", "scrub", "status"][t[1] % 3]})
    if cfgt[11] % 5 == 0:
        # link stage: a link recorded by one sync changes its kind AND its target before the next one (symbolic link replaced by a
        # hard link, or the reverse)
        d = cfgt[10] % nd
        nm = gen.name_of(cfgt[9], True)
        if cfgt[5] % 2 == 0:
            pre = {"op": "symlink", "disk": d, "name": nm, "target": gen.name_of(cfgt[8], True)}
            post = {"op": "hardlink", "disk": d, "fi": cfgt[7], "name": nm, "relink": True, "li": cfgt[6]}
        else:
            pre = {"op": "hardlink", "disk": d, "fi": cfgt[7], "name": nm}
            post = {"op": "symlink", "disk": d, "name": nm, "target": gen.name_of(cfgt[8], True)}
        at = [i for i, x in enumerate(steps) if x.get("op") == "sync" and not x.get("kill_after")]
        if not at:
            steps.append({"op": "sync"})
            at = [len(steps) - 1]
        steps.insert(at[0] + 1, post)
        steps.insert(0, pre)
    steps.append({"op": "sync"})
    return {"cfg": cfg, "init": [gen.decode_fs((0,) + tuple(t[1:]), bs, nd) for t in init], "prog": steps}


def strategy(tier):
    return st.tuples(gen.CFG, st.lists(gen.STEP, min_size=2, max_size=10),
                     st.lists(st.tuples(st.integers(0, 9), gen.STEP), min_size=6, max_size=40)).map(decode_case)


def tree_view(w, dn):
    """(files {rel: (size, mtime_ns, inode, nlink)}, symlinks {rel: target}, emptydirs set, alldirs set)"""
    snap = w.arr.snap_dir(w.arr.disk_dir(dn), with_bytes=False)
    files, links, dirs = {}, {}, set()
    for rel, e in snap.items():
        if rel.startswith(RESERVED_PREFIX):
            continue
        if e[0] == "f":
            files[rel] = (e[2], e[3], e[4], e[5])
        elif e[0] == "l":
            links[rel] = e[1]
        elif e[0] == "d":
            dirs.add(rel)
    nonempty = set()
    for rel in list(files) + list(links) + list(dirs):
        parent = os.path.dirname(rel)
        if parent:
            nonempty.add(parent)
    # a directory holding only a content copy is empty for the tool too? content files live in the disk root only
    empty = set(d for d in dirs if d not in nonempty)
    return files, links, empty, dirs


def parity_invalid(c):
    for pos, row in cfparse.position_table(c).items():
        has_file = any(v[0] in (cfparse.BLK, cfparse.CHG, cfparse.REP) for v in row.values())
        invalid = any(v[0] in (cfparse.CHG, cfparse.REP, cfparse.DELETED) for v in row.values())
        if has_file and invalid:
            return True
    return False


def expected_diff(w, c, trusted_disks):
    """True / False / None (ambiguous)"""
    diff = False
    for dn in w.arr.disk_names():
        files, links, empty, dirs = tree_view(w, dn)
        d = c.disks.get(dn.encode()) if c else None
        rfiles = {f.sub: f for f in d.files} if d else {}
        rlinks = {l.sub: l for l in d.links} if d else {}
        cur_names = set(files) | set(links)
        rec_names = set(rfiles) | set(rlinks)
        if cur_names != rec_names:
            diff = True
            continue
        # hard-link structure
        groups = {}
        for rel, (sz, mt, ino, nl) in files.items():
            groups.setdefault(ino, []).append(rel)
        for ino, names in groups.items():
            nfile = [n for n in names if n in rfiles]
            if len(nfile) != 1:
                return None  # ambiguous: which name is 'the file' depends on scan order
            for n in names:
                if n in rlinks:
                    if rlinks[n].kind != "hardlink":
                        diff = True
                    elif rlinks[n].linkto != nfile[0]:
                        return None
        for rel, f in rfiles.items():
            if rel not in files:
                diff = True
                continue
            sz, mt, ino, nl = files[rel]
            if sz != f.size or mt // 10**9 != f.mtime_sec or (f.mtime_nsec >= 0 and mt % 10**9 != f.mtime_nsec):
                diff = True
            elif dn in trusted_disks and ino != f.inode:
                diff = True  # reported as 'restored'
        for rel, l in rlinks.items():
            if l.kind == "symlink":
                if rel not in links or links[rel] != l.linkto:
                    diff = True
            else:
                if rel not in files:
                    diff = True
    if c and parity_invalid(c):
        diff = True
    return diff


def check_list(w, run):
    """list output vs the real tree"""
    by_disk = {}
    for t in run.tags:
        if t[0] == b"file" and len(t) >= 7:
            by_disk.setdefault(t[1].decode(), {"f": {}, "l": {}})["f"][t[2]] = (int(t[3]), int(t[4]), int(t[5]))
        elif t[0] in (b"link_hardlink", b"link_symlink") and len(t) >= 4:
            by_disk.setdefault(t[1].decode(), {"f": {}, "l": {}})["l"][t[2]] = (t[0][5:].decode(), t[3])
    for dn in w.arr.disk_names():
        files, links, empty, dirs = tree_view(w, dn)
        got = by_disk.get(dn, {"f": {}, "l": {}})
        names = set(got["f"]) | set(got["l"])
        want = set(files) | set(links)
        if names != want:
            extra, missing = sorted(names - want)[:2], sorted(want - names)[:2]
            return "list on %s: not in tree %r, not listed %r" % (dn, extra, missing)
        for rel, (sz, sec, ns) in got["f"].items():
            if rel not in files:
                return "list on %s: %r listed as file but is not a regular file" % (dn, rel)
            s2, mt, ino, nl = files[rel]
            if sz != s2 or sec != mt // 10**9 or ns != mt % 10**9:
                return "list on %s: %r listed with size %d mtime %d.%09d, tree has %d %d.%09d" % (dn, rel, sz, sec, ns, s2, mt // 10**9, mt % 10**9)
        for rel, (kind, to) in got["l"].items():
            if kind == "symlink":
                if links.get(rel) != to:
                    return "list on %s: symlink %r -> %r, tree has %r" % (dn, rel, to, links.get(rel))
            else:
                if rel not in files or to not in files or files[rel][2] != files[to][2]:
                    return "list on %s: hardlink %r -> %r does not share an inode in the tree" % (dn, rel, to)
        # exactly one 'file' per inode group
        seen = {}
        for rel in got["f"]:
            ino = files[rel][2]
            if ino in seen:
                return "list on %s: %r and %r are the same inode but both listed as files" % (dn, rel, seen[ino])
            seen[ino] = rel
    return None


def reads_of(trace):
    cov = {}
    for line in (trace or b"").decode("latin-1").splitlines():
        p = line.split(" ")
        if len(p) >= 7 and p[2] == "pread":
            cov.setdefault(p[3], []).append((int(p[4]), int(p[6])))
    return cov


def unesc_trace(s):
    out = bytearray()
    i = 0
    while i < len(s):
        if s[i] == "%" and i + 2 < len(s) + 1:
            out.append(int(s[i + 1:i + 3], 16))
            i += 3
        else:
            out.append(ord(s[i]))
            i += 1
    return bytes(out)


def check_reads(w, c_before, trace, trusted_disks):
    """every block of each new/changed file must have been read by the sync"""
    cov = {}
    for path, lst in reads_of(trace).items():
        cov[unesc_trace(path)] = lst
    for dn in w.arr.disk_names():
        files, links, empty, dirs = tree_view(w, dn)
        d = c_before.disks.get(dn.encode()) if c_before else None
        rfiles = {f.sub: f for f in d.files} if d else {}
        rec_by_inode = {f.inode: f for f in rfiles.values()} if dn in trusted_disks else {}
        groups = {}
        for rel, v in files.items():
            groups.setdefault(v[2], []).append(rel)
        for rel, (sz, mt, ino, nl) in files.items():
            if sz == 0:
                continue
            f = rfiles.get(rel)
            bs = w.arr.bs
            nblk = (sz + bs - 1) // bs
            need = set(range(nblk))
            if f is not None and f.size == sz and f.mtime_sec == mt // 10**9 and f.mtime_nsec == mt % 10**9:
                # unchanged identity: blocks already synced may be trusted, pending ones must be read
                need = set(i for i, b in enumerate(f.blocks) if b[1] != cfparse.BLK)
            else:
                g = rec_by_inode.get(ino)
                if g is not None and g.size == sz and g.mtime_sec == mt // 10**9 and g.mtime_nsec == mt % 10**9:
                    need = set(i for i, b in enumerate(g.blocks) if b[1] != cfparse.BLK)  # identity by inode (move within the disk)
            if not need:
                continue
            ok = False
            for name in groups[ino]:
                key = b"/" + dn.encode() + b"/" + name
                got = set(o // bs for (o, r) in cov.get(key, []) if r > 0)
                if need <= got:
                    ok = True
            if not ok and nl > 1:
                continue
            if not ok:
                return "sync did not read all pending blocks of new/changed file %s/%s (size %d) before recording it" % (dn, rel.decode("latin-1"), sz)
    return None


def run_case(case, ctx):
    cfg = dict(case["cfg"])
    cfg["rules"] = ["exclude *.unrecoverable"]
    w = World(cfg, ctx.rel, shim=ctx.shim)
    trusted = set(w.arr.disk_names()[:2]) if cfg.get("fake_uuid") else set()
    classes = set(cfg_classes(case["cfg"]))
    classes.add("order " + cfg["order"])
    full_syncs = 0
    interesting_between = False
    pending_interesting = False
    ndiff = 0
    try:
        for s in case["init"]:
            w.fs_step(s)
        for i, s in enumerate(case["prog"]):
            op = s["op"]
            if op == "sync":
                # verdict of diff before the sync
                try:
                    c = w.content_model()
                except cfparse.ContentError as e:
                    return Outcome(ok=False, why="content file not loadable before step %d: %s" % (i, e))
                exp = expected_diff(w, c, trusted)
                d = w.cmd("diff")
                if d.timed_out:
                    return Outcome(ok=True, inconclusive=True)
                if exp is not None:
                    ndiff += 1
                    if d.rc not in (0, 2):
                        return Outcome(ok=False, why="step %d: diff exits %d: %s" % (i, d.rc, d.err[-200:].decode("latin-1")))
                    if (d.rc == 2) != exp:
                        return Outcome(ok=False, why="step %d: diff exits %d but the tree %s the recorded state" % (i, d.rc, "differs from" if exp else "equals"),
                                       detail=ev_json(w.events, 60))
                else:
                    classes.add("ambiguous hardlinks (verdict skipped)")
                trf = os.path.join(w.arr.root, "logs", "trace%d" % i)
                partial = "B" in s or s.get("kill_after")
                r = run_command(w, s, shim_env={"TRACE": trf})
                if r.timed_out:
                    return Outcome(ok=True, inconclusive=True)
                if r.rc < 0:
                    return Outcome(ok=False, why="step %d: sync died with signal %d" % (i, -r.rc))
                for k in ("B", "F", "R", "h", "N", "kill_after"):
                    if k in s:
                        classes.add("sync " + k)
                if r.rc == 0 and not partial:
                    full_syncs += 1
                    if pending_interesting and full_syncs >= 2:
                        interesting_between = True
                    pending_interesting = False
                    why = check_reads(w, c, r.trace, trusted) if not s.get("N") else None
                    if why:
                        return Outcome(ok=False, why="step %d: %s" % (i, why), detail=ev_json(w.events, 60))
                    d2 = w.cmd("diff")
                    if d2.rc != 0:
                        return Outcome(ok=False, why="step %d: diff after a successful sync exits %d" % (i, d2.rc), detail=ev_json(w.events, 60))
                    ex = d2.summary("exit")
                    if not ex or ex[0] != b"equal":
                        return Outcome(ok=False, why="step %d: diff after a successful sync does not report equal" % i)
                    ls = w.cmd("list")
                    if ls.rc != 0:
                        return Outcome(ok=False, why="step %d: list exits %d" % (i, ls.rc))
                    why = check_list(w, ls)
                    if why:
                        return Outcome(ok=False, why="step %d: %s" % (i, why), detail=ev_json(w.events, 60))
                    c2 = w.content_model()
                    for dn in w.arr.disk_names():
                        files, links, empty, dirs = tree_view(w, dn)
                        rec = set(c2.disks[dn.encode()].dirs) if dn.encode() in c2.disks else set()
                        if not empty <= rec:
                            return Outcome(ok=False, why="step %d: empty directory %r of %s not recorded" % (i, sorted(empty - rec)[0], dn))
                    ck = w.cmd("check")
                    if ck.rc != 0:
                        return Outcome(ok=False, why="step %d: check after a successful sync exits %d: %s" % (i, ck.rc, ck.err[-200:].decode("latin-1")),
                                       detail=ev_json(w.events, 60))
                    probs, stt = w.oracle()
                    if probs:
                        return Outcome(ok=False, why="step %d: after successful sync: %s" % (i, probs[0]))
            elif op in ("touch", "scrub", "status"):
                before = w.arr.snap_data() if op == "touch" else None
                r = run_command(w, s)
                if op == "touch":
                    register_touch(w, before)
                classes.add(op)
            else:
                ev = w.fs_step(s)
                if ev and ev[0] in ("rewrite", "append", "truncate", "touch", "move", "rename", "file_to_dir", "file_to_link", "delete", "copy", "relink"):
                    pending_interesting = True
                    classes.add("op " + ev[0])
        fp = hashlib.sha1(json.dumps(case, sort_keys=True).encode()).hexdigest()[:16]
        sample = {"cfg": case["cfg"], "events": ev_json(w.events, 40), "diff_verdicts_checked": ndiff, "full_syncs": full_syncs}
        return Outcome(ok=True, fp=fp, nontrivial=full_syncs >= 2 and interesting_between, classes=sorted(classes), sample=sample)
    finally:
        w.destroy()
