"""C09: damaged content files are rejected; content replacement is atomic."""
import hashlib
import json
import os
import random
import shutil
import subprocess

from hypothesis import strategies as st

import cfparse
import cfwrite
import gen
from hashes import crc32c
from pbt import Outcome
from prog import decode_step, run_history, cfg_classes, ev_json
from sandbox import default_cfg
from world import World
import c10
import cfuzz

PID = "C09"
LEVEL = "fault_enumeration"
RULE = ("Three generators per Hypothesis case. (A1, loader) a seed content file -- reached by a random history (formats 2 and 3, every "
        "record kind: files, links, dirs, deleted runs, pending/replaced blocks, bad/rehash marks, split records, odd names) or synthesised "
        "with boundary values -- is mutated inside the property's domain: every truncation length, single-bit flips, single-byte "
        "substitutions, and random multi-byte damage (1..100 runs); quick samples a few thousand mutations per seed file, thorough "
        "enumerates ALL truncations, ALL single-bit flips and all 255 substitutions of every byte for files up to 1.5 KiB. Each mutation "
        "is loaded by a forked child of native/loader_harness (ASan+UBSan build of the tree's own state_read). (A2, commands) a sample of "
        "mutations is given to status/diff/list/check/sync/scrub/fix of the sanitizer build and everything below the scratch root is "
        "snapshotted. (B, atomic save) sync with a metadata change, scrub and touch are run with 1..7 content copies under a frozen clock "
        "and seeded /dev/urandom; the process is killed at state-changing call k (sampled in quick, every k in thorough). Oracle: no "
        "mutated file is ever loaded (exit through an error path or the loader's abort; never a sanitizer report or a memory fault), "
        "commands exit != 0 and change nothing; after a kill every configured copy equals the complete old or the complete new file; "
        "in the trace each rename(tmp -> final) follows that file's last write, an fsync and a complete read-back; after a successful "
        "command all copies are identical and no .tmp is left. Non-trivial: a mutation that really changes the file / a kill inside the "
        "save sequence; distinct = (seed file hash, mutation) or (case hash, k). (A3, coverage-guided) after the Hypothesis cases, a "
        "libFuzzer campaign (native/content_fuzz.c: the tree's state_read in-process, ASan+UBSan, 16 forked jobs, 30 s quick / 15 min "
        "thorough) mutates content files written by the tree's own binary, with a dictionary of varint boundary encodings; oracle in the "
        "target: a file that loads must carry the CRC-32C of its bytes (computed bit by bit in the target), every other end than the "
        "loader's own error exits is a crash; only crash-/leak- artifacts that reproduce 3 times from the saved input count.")
ASSUMPTIONS = [
    "a multi-byte mutation whose CRC-32C (independently computed) still matches is a legitimate acceptance (2^-32) and is exempted",
    "ASAN_OPTIONS/UBSAN_OPTIONS exitcode=99 separates sanitizer reports from the loader's own error exits; out-of-memory or timeout on "
    "absurd sizes is counted as inconclusive",
    "process death keeps the page cache: the fsync-before-rename ORDER is checked on the trace, its durability effect is not simulated",
]


def variants():
    return ["rel", "san", "shim", "oracle", "loader_san", "content_fuzz"]


def budget(tier):
    return 6 if tier == "quick" else 10


def decode_case(raw):
    kind, cfgt, init, prog, seed, ncopies, bcmd = raw
    base = c10.decode_case((kind, cfgt, init, prog, seed))
    base["ncopies"] = 1 + ncopies % 7
    base["bcmd"] = ["sync", "scrub", "touch"][bcmd % 3]
    base["part"] = ["A", "A", "B"][seed % 3]
    return base


def strategy(tier):
    return st.tuples(st.integers(0, 2), gen.CFG, st.lists(gen.STEP, min_size=2, max_size=8),
                     st.lists(st.tuples(st.integers(0, 8), gen.STEP), min_size=3, max_size=15), st.integers(0, 1 << 30),
                     st.integers(0, 6), st.integers(0, 2)).map(decode_case)


class Loader(object):
    def __init__(self, binary, conf, cwd):
        env = dict(os.environ)
        env["ASAN_OPTIONS"] = "exitcode=99:detect_leaks=0:abort_on_error=0:allocator_may_return_null=1:max_allocation_size_mb=2048"
        env["UBSAN_OPTIONS"] = "exitcode=99:print_stacktrace=0"
        self.p = subprocess.Popen([binary, conf], stdin=subprocess.PIPE, stdout=subprocess.PIPE, stderr=subprocess.PIPE, env=env, cwd=cwd)
        line = self.p.stdout.readline()
        if not line.startswith(b"READY"):
            err = self.p.stderr.read()
            raise RuntimeError("loader harness did not start: %r %r" % (line, err[-500:]))

    def load(self):
        self.p.stdin.write(b"R\n")
        self.p.stdin.flush()
        return self.p.stdout.readline().strip().decode()

    def close(self):
        try:
            self.p.stdin.close()
            self.p.wait(timeout=10)
        except Exception:
            self.p.kill()


def mutations(B, seed, thorough):
    """yield (description, bytes) inside the property's domain"""
    n = len(B)
    rnd = random.Random(seed)
    small = n <= 1536
    # truncations
    cuts = range(n) if (thorough or n <= 600) else sorted(set([0, 1, 11, 12, 13, n - 1, n - 4, n - 5, n - 6] + [rnd.randrange(n) for _ in range(300)]))
    for k in cuts:
        if 0 <= k < n:
            yield ("truncate@%d" % k, B[:k])
    # single bit flips
    if thorough and small:
        offs = range(n)
    else:
        offs = sorted(set(list(range(min(n, 40))) + list(range(max(0, n - 12), n)) + [rnd.randrange(n) for _ in range(250)]))
    for o in offs:
        for bit in (range(8) if (thorough and small) else [rnd.randrange(8), rnd.randrange(8)]):
            b = bytearray(B)
            b[o] ^= 1 << bit
            yield ("bit@%d.%d" % (o, bit), bytes(b))
    # byte substitutions
    for o in (range(n) if (thorough and small) else [rnd.randrange(n) for _ in range(300)]):
        vals = range(256) if (thorough and small) else [0x00, 0xff, 0x7f, 0x80, B[o] ^ 0x20, (B[o] + 1) & 0xff, rnd.randrange(256), 0x8f]
        for v in vals:
            if v != B[o]:
                b = bytearray(B)
                b[o] = v
                yield ("byte@%d=%02x" % (o, v), bytes(b))
    # random multi-byte damage
    for i in range(600 if thorough else 150):
        b = bytearray(B)
        for _ in range(rnd.choice([1, 1, 2, 3, 5, 10, 100])):
            o = rnd.randrange(n)
            ln = rnd.choice([1, 2, 4, 5, 8, 16])
            pat = rnd.choice(["rand", "7f", "ff", "00", "len"])
            for j in range(o, min(n, o + ln)):
                if pat == "rand":
                    b[j] = rnd.randrange(256)
                elif pat == "7f":
                    b[j] = 0x7f
                elif pat == "ff":
                    b[j] = 0xff
                elif pat == "00":
                    b[j] = 0
                else:
                    b[j] = [0x7f, 0x7f, 0x7f, 0x7f, 0x8f, 0xff, 0x81][(j - o) % 7]
        if bytes(b) != B:
            yield ("multi#%d" % i, bytes(b))


def part_a(case, ctx, w, classes, B):
    thorough = ctx.tier == "thorough"
    paths = w.arr.content_paths()
    target = paths[0]
    for p in paths[1:]:
        if os.path.exists(p):
            os.unlink(p)
    # single content copy for the loader: the configuration must name only it
    w.arr.cfg["content"] = [w.arr.cfg["content"][0]] if w.arr.cfg.get("content") else ["par"]
    w.arr.write_conf()
    target = w.arr.content_paths()[0]
    os.makedirs(os.path.dirname(target), exist_ok=True)
    with open(target, "wb") as f:
        f.write(B)
    ld = Loader(ctx.paths["loader_san"], w.arr.conf_path(), w.arr.root)
    n = 0
    kinds = {}
    collisions = 0
    inconclusive = 0
    try:
        # the seed file itself must load
        if ld.load() != "L":
            return Outcome(ok=True, classes=sorted(classes | {"seed file not loadable by the harness (skipped)"}))
        fhash = hashlib.sha1(B).hexdigest()[:10]
        samples = []
        for desc, M in mutations(B, case["seed"], thorough):
            with open(target, "wb") as f:
                f.write(M)
            res = ld.load()
            n += 1
            k = desc.split("@")[0].split("#")[0]
            kinds[k] = kinds.get(k, 0) + 1
            if res == "L":
                if k == "multi" and len(M) >= 5 and M[-5:-4] == b"N" and crc32c(M[:-4]) == int.from_bytes(M[-4:], "little"):
                    collisions += 1
                    continue
                return Outcome(ok=False, why="damaged content file (%s of a %d-byte file) was LOADED" % (desc, len(B)),
                               detail={"mutation": desc, "seed_sha1": fhash, "file_hex": M.hex() if len(M) < 6000 else None})
            if res.startswith("E"):
                code = int(res.split()[1])
                if code == 99:
                    return Outcome(ok=False, why="sanitizer report while loading a damaged content file (%s)" % desc,
                                   detail={"mutation": desc, "file_hex": M.hex() if len(M) < 6000 else None})
            elif res.startswith("S"):
                sig = int(res.split()[1])
                if sig == 9:
                    inconclusive += 1
                elif sig != 6:
                    return Outcome(ok=False, why="loader killed by signal %d on a damaged content file (%s): memory-unsafe behaviour" % (sig, desc),
                                   detail={"mutation": desc, "file_hex": M.hex() if len(M) < 6000 else None})
            else:
                raise RuntimeError("loader harness protocol error: %r" % res)
            if len(samples) < 3:
                samples.append([desc, res])
    finally:
        ld.close()
    for k in kinds:
        classes.add("mutation " + k)
    if collisions:
        classes.add("crc collision (legitimate)")
    # A2: commands on a few mutations
    rnd = random.Random(case["seed"] + 7)
    muts = []
    for desc, M in mutations(B, case["seed"] + 1, False):
        if rnd.random() < 0.004:
            muts.append((desc, M))
        if len(muts) >= (4 if thorough else 2):
            break
    ncmd = 0
    for desc, M in muts:
        with open(target, "wb") as f:
            f.write(M)
        before = w.arr.snap_all()
        lock = os.path.relpath(target + ".lock", w.arr.root).encode()
        for cmd, args in (("status", []), ("diff", []), ("list", []), ("check", ["-a"]), ("sync", []), ("scrub", []), ("fix", []), ("dup", [])):
            env = {"ASAN_OPTIONS": "exitcode=99:detect_leaks=0:allocator_may_return_null=1", "UBSAN_OPTIONS": "exitcode=99"}
            r = w.cmd(cmd, args, binary=ctx.san, env=env)
            ncmd += 1
            if r.timed_out:
                continue
            if r.rc == 0:
                return Outcome(ok=False, why="%s succeeds with a damaged content file (%s)" % (cmd, desc))
            if r.rc == 99 or r.rc in (-11, -7):
                return Outcome(ok=False, why="%s: memory-unsafe behaviour (rc=%d) on a damaged content file (%s)" % (cmd, r.rc, desc))
            after = w.arr.snap_all()
            ch = [k for k in set(before) | set(after) if k != lock and (before.get(k, (None,))[:2] != after.get(k, (None,))[:2])
                  and not (k.startswith(b"par/") and before.get(k) is None and after.get(k, ("f", b"x"))[1] == b"")]
            if ch:
                return Outcome(ok=False, why="%s with a damaged content file changed %r" % (cmd, ch[0]))
    fp = hashlib.sha1(json.dumps(case, sort_keys=True).encode()).hexdigest()[:16]
    sample = {"seed_file_bytes": len(B), "seed_sha1": fhash, "mutations": n, "by_kind": kinds, "first": samples, "commands_run": ncmd}
    fps = ["%s:%s:%d" % (fhash, k, v) for k, v in kinds.items()]
    return Outcome(ok=True, fp=fp, nontrivial=n > 0, classes=sorted(classes), sample=sample, n_eval=n + ncmd, fps=["%s:%d" % (fhash, i) for i in range(n)], inconclusive=False)


def heal_check(case, w, classes):
    """a secondary copy that is missing or has another size (a damaged copy) before a command that saves the state:
    after the successful command all copies are byte-identical again"""
    paths = w.arr.content_paths()
    if len(paths) < 2 or not all(os.path.exists(p) for p in paths):
        return None
    if len(set(open(p, "rb").read() for p in paths)) != 1:
        return None
    sd = case["seed"]
    j = len(paths) - 1 if (sd >> 3) & 1 else 1 + (sd >> 4) % (len(paths) - 1)
    kind = ["missing", "half", "minus1", "empty", "plus1"][(sd >> 7) % 5]
    hcmd, hargs = [("sync", ["-E", "-Z"]), ("scrub", ["-p", "bad"]), ("scrub", ["-p", "new"]), ("touch", []), ("sync", ["-E", "-Z"])][(sd >> 10) % 5]
    B = open(paths[j], "rb").read()
    if kind == "missing":
        os.unlink(paths[j])
    else:
        with open(paths[j], "wb") as f:
            f.write({"half": B[:len(B) // 2], "minus1": B[:-1], "empty": b"", "plus1": B + b"\0"}[kind])
    r = w.cmd(hcmd, hargs)
    if r.timed_out:
        return None
    classes.add("heal: copy %s before %s" % (kind, hcmd))
    if r.rc != 0:
        # repair by hand and go on
        for p in paths:
            if p != paths[0]:
                shutil.copyfile(paths[0], p)
        return None
    cur = [open(p, "rb").read() if os.path.exists(p) else None for p in paths]
    if len(set(cur)) != 1:
        bad = [os.path.relpath(p, w.arr.root) for p, c in zip(paths, cur) if c != cur[0]]
        return ("content copy %d of %d was %s before a successful '%s %s'; after it the copies are not identical (%s differ from the first: %s)" %
                (j + 1, len(paths), kind, hcmd, " ".join(hargs), ", ".join(bad), ["missing" if c is None else "%d bytes" % len(c) for c in cur]))
    return None


def part_b(case, ctx, w, classes):
    thorough = ctx.tier == "thorough"
    cmd = case["bcmd"]
    clock = 1800000000
    env0 = {"CLOCK": clock, "URANDOM": case["seed"] % 1000}
    why = heal_check(case, w, classes)
    if why:
        return Outcome(ok=False, why=why)
    if cmd == "sync":
        # a metadata-only change: a new empty file and a time-stamp change
        w.write_file(0, b"meta_new_empty", b"")
        args = ["-E", "-Z"]
    elif cmd == "scrub":
        args = ["-p", "full"]
    else:
        w.write_file(0, b"zero_ns_file", b"x" * 10, mtime_ns=1600000000 * 10**9)
        w.cmd("sync", ["-E", "-Z"])
        args = []
    olds = {p: open(p, "rb").read() for p in w.arr.content_paths() if os.path.exists(p)}
    if len(set(olds.values())) > 1:
        return Outcome(ok=False, why="content copies differ before the command")
    O = list(olds.values())[0] if olds else None
    bak = w.arr.root + ".c09bak"
    if os.path.exists(bak):
        shutil.rmtree(bak)
    subprocess.run(["cp", "-a", w.arr.root, bak], check=True)

    def restore():
        for n in os.listdir(w.arr.root):
            if n == "logs":
                continue
            p = os.path.join(w.arr.root, n)
            shutil.rmtree(p) if os.path.isdir(p) and not os.path.islink(p) else os.unlink(p)
        for n in os.listdir(bak):
            if n != "logs":
                subprocess.run(["cp", "-a", os.path.join(bak, n), os.path.join(w.arr.root, n)], check=True)
    try:
        cntf = os.path.join(w.arr.root, "logs", "c09count")
        trf = os.path.join(w.arr.root, "logs", "c09trace")
        ref = w.cmd(cmd, args, shim_env=dict(env0, COUNT=cntf, TRACE=trf))
        if ref.rc != 0 or not os.path.exists(cntf):
            return Outcome(ok=True, classes=sorted(classes | {"reference %s failed" % cmd}))
        nsc = int(open(cntf).read())
        news = [open(p, "rb").read() for p in w.arr.content_paths()]
        if len(set(news)) != 1:
            return Outcome(ok=False, why="after a successful %s the content copies are not identical" % cmd)
        N = news[0]
        for p in w.arr.content_paths():
            if os.path.exists(p + ".tmp"):
                return Outcome(ok=False, why="after a successful %s %s.tmp is left behind" % (cmd, p))
        try:
            cfparse.parse(N)
        except cfparse.ContentError as e:
            return Outcome(ok=False, why="content written by %s rejected by the independent parser: %s" % (cmd, e))
        if N == O:
            return Outcome(ok=True, classes=sorted(classes | {"state unchanged (trivial)"}))
        # trace: order of write / fsync / read-back / rename for each copy
        why = check_save_order(ref.trace, w)
        if why:
            return Outcome(ok=False, why="%s: %s" % (cmd, why))
        rnd = random.Random(case["seed"])
        ks = range(nsc) if (thorough and nsc <= 500) else sorted(set(rnd.randrange(nsc) for _ in range(8)))
        nk = 0
        fps = []
        base_fp = hashlib.sha1(json.dumps(case, sort_keys=True).encode()).hexdigest()[:12]
        for k in ks:
            for mode in (("before", "after", "short") if thorough else (rnd.choice(["before", "after", "short"]),)):
                restore()
                r = w.cmd(cmd, args, shim_env=dict(env0, KILL="%d:%s" % (k, mode)))
                if r.rc != 137:
                    continue
                nk += 1
                for p in w.arr.content_paths():
                    cur = open(p, "rb").read() if os.path.exists(p) else None
                    if cur is None and O is None:
                        continue
                    if cur != O and cur != N:
                        # sync saves the state twice (before and after the parity update): an intermediate COMPLETE
                        # version is as good as the old or the final one; a torn file cannot pass the independent parser
                        try:
                            if cur is not None:
                                cfparse.parse(cur)
                                classes.add("intermediate complete version")
                                continue
                        except cfparse.ContentError:
                            pass
                        what = "missing" if cur is None else ("%d bytes, neither the old (%d) nor the new (%d) version" % (len(cur), len(O or b""), len(N)))
                        return Outcome(ok=False, why="%s killed %s state-changing call %d of %d: content copy %s is %s" % (cmd, mode, k, nsc, os.path.relpath(p, w.arr.root), what),
                                       detail={"k": k, "mode": mode})
                fps.append("%s:%d:%s" % (base_fp, k, mode))
                # some command must still load a state
                st_ = w.cmd("status")
                if st_.rc != 0:
                    return Outcome(ok=False, why="%s killed %s call %d: status cannot load any content copy afterwards (rc=%d)" % (cmd, mode, k, st_.rc))
        classes.add("atomic save: " + cmd)
        classes.add("copies=%d" % len(w.arr.content_paths()))
        sample = {"command": cmd, "copies": len(w.arr.content_paths()), "state_changing_calls": nsc, "kill_points": nk}
        return Outcome(ok=True, fp=base_fp, nontrivial=nk > 0, classes=sorted(classes), sample=sample, n_eval=max(1, nk), fps=fps or None)
    finally:
        shutil.rmtree(bak, ignore_errors=True)


def check_save_order(trace, w):
    """for each content copy: ... write(tmp)* fsync(tmp) close(tmp) [open(tmp) read(tmp)* to EOF close] rename(tmp->final)"""
    lines = []
    for ln in (trace or b"").decode("latin-1").splitlines():
        p = ln.split(" ")
        if len(p) >= 7:
            lines.append((int(p[0]), p[2], p[3], int(p[4]), int(p[5]), int(p[6])))
    lines.sort()
    finals = [os.path.relpath(p, w.arr.root) for p in w.arr.content_paths()]
    for fin in finals:
        tmp = "/" + fin + ".tmp"
        # consider the LAST save sequence of this copy
        ren = [i for i, l in enumerate(lines) if l[1] == "rename" and l[2] == "/" + fin]
        if not ren:
            return "content copy %s was never renamed into place" % fin
        prev_end = 0
        for ri in ren:
            seg = [l for l in lines[prev_end:ri] if l[2] == tmp]
            prev_end = ri + 1
            ops = [l[1] for l in seg]
            if "write" not in ops:
                return "%s renamed into place without being written in this save" % fin
            lw = max(i for i, o in enumerate(ops) if o == "write")
            if "fsync" not in ops[lw:]:
                return "%s.tmp was not flushed (fsync) after its last write and before the rename" % fin
            fs = lw + ops[lw:].index("fsync")
            written = sum(l[5] for l in seg if l[1] == "write" and l[5] > 0)
            readback = sum(l[5] for l in seg[fs:] if l[1] == "read" and l[5] > 0)
            if readback < written:
                return "%s.tmp was renamed into place after reading back %d of the %d bytes written" % (fin, readback, written)
    return None


def extra(res, ctx):
    """(A3) coverage-guided campaign against the loader, after the Hypothesis workers have finished"""
    cfuzz.campaign(res, ctx, PID, 30 if ctx.tier == "quick" else 900, ctx.seed)


def run_case(case, ctx):
    if case.get("kind") == "fuzz":
        ok, why = cfuzz.replay(ctx, case)
        if ok is None:
            return Outcome(ok=True, inconclusive=True, why=why)
        return Outcome(ok=ok, why=why, nontrivial=True, classes=["fuzz replay"])
    if case["kind"] == "synth" and case["part"] == "A":
        c, shape = c10.synth_model(case["seed"], case["cfgt"])
        cfg = default_cfg(ndisks=shape["ndisks"], levels=shape["levels"], bs_kib=shape["bs_kib"], hashsize=shape["hashsize"], splits=shape["nsplits"], content=["par"])
        w = World(cfg, ctx.rel, shim=ctx.shim)
        try:
            for lev, par in c.parities.items():
                if par.kind == "Q":
                    for s_, sp in enumerate(par.splits):
                        sp.path = os.fsencode(w.arr.parity_paths(lev)[s_])
            B = cfwrite.encode(c)
            if len(B) > 20000:
                return Outcome(ok=True, classes=["seed file too large for the sweep"])
            return part_a(case, ctx, w, {"seed synthesised", "format %d" % c.version}, B)
        finally:
            w.destroy()
    if case["kind"] == "synth":
        case = dict(case)
        return Outcome(ok=True, classes=["synth case in part B (skipped)"])
    cfg = dict(case["cfg"])
    cfg["rules"] = ["exclude *.unrecoverable"]
    cfg["fake_uuid"] = False
    if case["part"] == "B":
        cfg["content"] = ["par"] * case["ncopies"]
    w = World(cfg, ctx.rel, shim=ctx.shim)
    classes = set(cfg_classes(case["cfg"]))
    try:
        for s in case["init"]:
            w.fs_step(s)
        r = w.cmd("sync")
        if r.rc != 0:
            return Outcome(ok=True, classes=["initial sync refused"])
        fail, hs = run_history(w, case["prog"])
        if hs["timeout"]:
            return Outcome(ok=True, inconclusive=True)
        if fail:
            return Outcome(ok=False, why=fail)
        B = w.arr.read_content()
        if B is None:
            return Outcome(ok=True, classes=["no content"])
        if case["part"] == "B":
            r = w.cmd("sync", ["-E", "-Z"])
            if r.rc != 0:
                return Outcome(ok=True, classes=["sync refused"])
            return part_b(case, ctx, w, classes)
        classes.add("seed from history")
        try:
            classes.add("format %d" % cfparse.parse(B).version)
        except cfparse.ContentError:
            pass
        if len(B) > 20000:
            return Outcome(ok=True, classes=["seed file too large for the sweep"])
        return part_a(case, ctx, w, classes, B)
    finally:
        w.destroy()
