"""C15: scrub checks what its plan says and keeps honest books."""
import hashlib
import json
import os
import random

from hypothesis import strategies as st

import cfparse
import hashes
import damage
import gen
import treecmp
from pbt import Outcome
from prog import cfg_classes, ev_json
from world import World

PID = "C15"
LEVEL = "exploration"
RULE = ("Hypothesis cases {config, rounds, final plan}: under a clock owned by the harness (LD_PRELOAD shim) a sequence of rounds -- "
        "file-system changes, sync, scrub with some plan, silent corruption, fix -e -- shapes the per-stripe last-check times (distinct "
        "days, ties inside the 8 s granularity), bad marks, just-synced marks and unsynced files; then a scrub with plan in {default, -p P "
        "(0..100) [-o D], -p new, -p bad, -p full} at a generated 'now'. The set of stripes scrub really read is taken from the "
        "system-call trace (parity reads). Oracle (validity predicate): bad stripes always selected; full = all stripes with info; new = "
        "just-synced ones; bad = only bad; percentage: at most ceil(P*blockmax/100) non-bad stripes, none younger than now-D days, and no "
        "unselected non-bad stripe strictly older than a selected one; count_limit/time_limit tags consistent; books: a selected stripe "
        "verified correct gets time=now (8 s granularity) and all flags cleared, a stripe with silent damage gets the bad mark, a stripe "
        "whose file changed since the sync is neither refreshed nor marked, unselected stripes are untouched; data and parity unchanged; "
        "repeated default-style scrubs with the clock advancing cover every stripe within ceil(100/P)+1 rounds. Non-trivial: >= 3 "
        "distinct check times and a plan selecting a proper non-empty subset; distinct = hash of the case.")
ASSUMPTIONS = [
    "non-split parity (the stripe read by scrub is identified by the offset of the parity read)",
    "the quota of a percentage plan is computed on the number of parity stripes (blockmax), as the manual's 'percentage of the array'",
    "hash size >= 8 so that injected silent errors are detected",
]

DAY = 86400
T0 = 1700000000


def variants():
    return ["rel", "shim", "oracle"]


def budget(tier):
    return 300 if tier == "quick" else 5000


PLANS = [("default", None, None), ("pct", 0, None), ("pct", 5, None), ("pct", 20, 0), ("pct", 33, 3), ("pct", 50, 0), ("pct", 100, 0), ("pct", 100, 30),
         ("new", None, None), ("bad", None, None), ("full", None, None), ("pct", 10, 0), ("pct", 75, 1)]


def plan_args(p):
    kind, P, D = p
    if kind == "default":
        return []
    if kind == "pct":
        a = ["-p", str(P)]
        if D is not None:
            a += ["-o", str(D)]
        return a
    return ["-p", kind]


def decode_case(raw):
    cfgt, init, rounds, final, fnow, cover = raw
    cfg = gen.decode_cfg(cfgt, max_disks=3, allow_split=False, hashsizes=(16, 16, 8))
    cfg["fake_uuid"] = False
    bs, nd = cfg["bs_kib"] * 1024, cfg["ndisks"]
    init_steps = [gen.decode_fs((0,) + tuple(t[1:]), bs, nd, odd=False, links=False) for t in init]
    for i in range(4):
        init_steps.append({"op": "create", "disk": i % nd, "name": "base%d" % i, "size": bs * (2 + i) + 5, "cseed": 500 + i, "kind": 0})
    rs = []
    for (kind, t, days, secs, pl) in rounds:
        r = {"days": days % 40, "secs": secs % 20}
        k = kind % 6
        if k <= 1:
            s = gen.decode_fs((0,) + tuple(t[1:]), bs, nd, odd=False, links=False)
            s["name"] = "r%d_%s" % (len(rs), s["name"].replace("/", "_"))
            r.update({"kind": "add_sync", "step": s})
        elif k == 2:
            r.update({"kind": "scrub", "plan": list(PLANS[pl % len(PLANS)])})
        elif k == 3:
            r.update({"kind": "damage_scrub", "seed": t[4], "plan": list(PLANS[pl % len(PLANS)])})
        elif k == 4:
            r.update({"kind": "fix_e"})
        else:
            r.update({"kind": "change_sync", "step": gen.decode_fs(t, bs, nd, odd=False, links=False)})
        rs.append(r)
    return {"cfg": cfg, "init": init_steps, "rounds": rs, "final": list(PLANS[final % len(PLANS)]), "final_days": fnow % 60,
            "unsynced_change": bool(cover % 2), "coverage_test": cover % 5 == 0}


def strategy(tier):
    rnd = st.tuples(st.integers(0, 5), gen.STEP, st.integers(0, 63), st.integers(0, 63), st.integers(0, 63))
    return st.tuples(gen.CFG, st.lists(gen.STEP, min_size=2, max_size=6), st.lists(rnd, min_size=2, max_size=10),
                     st.sampled_from(range(len(PLANS))), st.integers(0, 63), st.integers(0, 63)).map(decode_case)


def infos(c):
    return {i: v for i, v in enumerate(c.info) if v is not None}


def read_positions(run, bs):
    out = set()
    for line in (run.trace or b"").decode("latin-1").splitlines():
        p = line.split(" ")
        if len(p) >= 7 and p[2] == "pread" and p[3] == "/par/parity.0" and int(p[6]) > 0:
            out.add(int(p[4]) // bs)
    return out


def scrub_and_check(w, plan, now, damaged_pos, changed_files_pos, label):
    """run scrub at clock `now`; verify selection and books; returns (why or None, stats)"""
    c0 = w.content_model()
    bs = c0.block_size
    pre = infos(c0)
    data0 = w.arr.snap_data()
    par0 = [w.arr.read_parity(l) for l in range(w.arr.cfg["levels"])]
    trf = os.path.join(w.arr.root, "logs", "scrubtrace%d" % w.arr.ncmd)
    run = w.cmd("scrub", plan_args(tuple(plan)), shim_env={"CLOCK": now, "TRACE": trf})
    if run.timed_out:
        return None, None
    if not pre:
        return None, None
    c1 = w.content_model()
    post = infos(c1)
    S = read_positions(run, bs)
    kind, P, D = plan
    bad = set(i for i, v in pre.items() if v.bad)
    blockmax = c0.blockmax
    # ---- selection
    if not bad <= S:
        return "%s: bad stripes %r not scrubbed by plan %s" % (label, sorted(bad - S)[:3], plan), None
    if not S <= set(pre):
        return "%s: scrub read stripes without info %r" % (label, sorted(S - set(pre))[:3]), None
    if kind == "full":
        if S != set(pre):
            return "%s: plan full scrubbed %d of %d stripes" % (label, len(S), len(pre)), None
    elif kind == "new":
        want = set(i for i, v in pre.items() if v.justsynced) | bad
        if S != want:
            return "%s: plan new scrubbed %r, just-synced+bad are %r" % (label, sorted(S ^ want)[:4], sorted(want)[:4]), None
    elif kind == "bad":
        if S != bad:
            return "%s: plan bad scrubbed %r beyond the bad stripes" % (label, sorted(S - bad)[:4]), None
    else:
        if kind == "default":
            quota = -(-blockmax // 12)
            limit = now - 10 * DAY
        else:
            quota = -(-blockmax * P // 100)
            limit = now - (10 if D is None else D) * DAY
        sel = S - bad
        if len(sel) > quota:
            return "%s: plan %s scrubbed %d non-bad stripes, the share allows %d of %d" % (label, plan, len(sel), quota, blockmax), None
        young = [i for i in sel if pre[i].time > limit]
        if young:
            return "%s: plan %s scrubbed stripe %d checked at %d, younger than the age limit %d" % (label, plan, young[0], pre[young[0]].time, limit), None
        if sel:
            newest_sel = max(pre[i].time for i in sel)
            older_unsel = [i for i in pre if i not in S and pre[i].time < newest_sel]
            if older_unsel:
                return "%s: plan %s skipped stripe %d (checked %d) but scrubbed a younger one (%d)" % (label, plan, older_unsel[0], pre[older_unsel[0]].time, newest_sel), None
        # completeness of the quota: if old-enough stripes remain unselected, the quota must be exhausted
        eligible = [i for i in pre if i not in bad and pre[i].time <= limit]
        cl = [t for t in run.tags if t[0] == b"count_limit"]
        if cl:
            climit = int(cl[0][1])
            if len(sel) < min(quota, len(eligible)) and len(sel) < climit - len([b_ for b_ in bad if pre[b_].time <= limit]):
                return "%s: plan %s scrubbed only %d stripes although %d are old enough and the share allows %d" % (label, plan, len(sel), len(eligible), quota), None
    # ---- books
    now8 = now & ~7
    pred = predict_all(w, c0)
    for i in pre:
        a, b = pre[i], post.get(i)
        if b is None:
            return "%s: info of stripe %d vanished" % (label, i), None
        if i not in S:
            if a != b:
                return "%s: stripe %d was not scrubbed but its info changed %r -> %r" % (label, i, a, b), None
            continue
        verdict = pred.get(i, "unknown")
        if verdict == "silent":
            if not b.bad:
                return "%s: stripe %d has a silent error but was not marked bad" % (label, i), None
            if b.time != a.time:
                return "%s: stripe %d has a silent error but its check time was refreshed" % (label, i), None
        elif verdict == "unsynced":
            if b.bad and not a.bad:
                return "%s: stripe %d differs only because of a file changed since the sync (or pending blocks) and was marked bad" % (label, i), None
            if b.time != a.time:
                return "%s: stripe %d differs because of a file changed since the sync (or pending blocks) and was refreshed" % (label, i), None
        elif verdict == "ok":
            if b.bad or b.justsynced or b.rehash or b.time != now8:
                return "%s: stripe %d verified correct but its info is %r (expected time %d, no flags)" % (label, i, b, now8), None
    # ---- nothing else touched
    data1 = w.arr.snap_data()
    for dn in data0:
        diffs = treecmp.same_tree(treecmp.user_entries(data0[dn]), treecmp.user_entries(data1[dn]))
        if diffs:
            return "%s: scrub changed data disk %s: %s" % (label, dn, diffs[0]), None
    if par0 != [w.arr.read_parity(l) for l in range(w.arr.cfg["levels"])]:
        return "%s: scrub changed a parity file" % label, None
    return None, {"selected": len(S), "with_info": len(pre), "bad": len(bad), "times": len(set(v.time for v in pre.values()))}


def run_case(case, ctx):
    cfg = dict(case["cfg"])
    cfg["rules"] = ["exclude *.unrecoverable"]
    w = World(cfg, ctx.rel, shim=ctx.shim)
    classes = set(cfg_classes(case["cfg"]))
    now = T0
    damaged = set()
    try:
        for s in case["init"]:
            w.fs_step(s)
        r = w.cmd("sync", shim_env={"CLOCK": now})
        if r.rc != 0:
            return Outcome(ok=True, classes=["initial sync refused"])
        stats_all = []
        for ri, rd in enumerate(case["rounds"]):
            now += rd["days"] * DAY + rd["secs"]
            k = rd["kind"]
            if k in ("add_sync", "change_sync"):
                w.fs_step(rd["step"])
                r = w.cmd("sync", ["-E", "-Z"], shim_env={"CLOCK": now})
                damaged = find_damaged(w, w.content_model())
            elif k == "scrub":
                why, stt = scrub_and_check(w, rd["plan"], now, damaged, set(), "round %d" % ri)
                if why:
                    return Outcome(ok=False, why=why)
                if stt:
                    stats_all.append(stt)
            elif k == "damage_scrub":
                c = w.content_model()
                if c and c.blockmax and not cfparse.has_unsynced(c):
                    led = damage.apply_stripes(w, c, rd["seed"], 1, density=0.25)
                    # positions hit: recompute by comparing with the oracle is overkill; track via ledger of data blocks
                    tab = cfparse.position_table(c)
                    probs, _ = w.oracle()
                    # every stripe whose data or parity no longer matches is 'damaged'
                    import parityoracle
                    damaged = find_damaged(w, c)
                    classes.add("silent errors injected")
                why, stt = scrub_and_check(w, rd["plan"], now, damaged, set(), "round %d" % ri)
                if why:
                    return Outcome(ok=False, why=why)
                if stt:
                    stats_all.append(stt)
            elif k == "fix_e":
                r = w.cmd("fix", ["-e"], shim_env={"CLOCK": now})
                if r.rc == 0:
                    damaged = find_damaged(w, w.content_model())
                    classes.add("fix -e")
        # final scrub
        now += case["final_days"] * DAY + 3
        changed_pos = set()
        c = w.content_model()
        if case["unsynced_change"] and c and c.blockmax:
            # rewrite one synced file (new mtime): its stripes must be neither refreshed nor marked
            for dn in w.arr.disk_names():
                fl = w.list_files(dn)
                if fl:
                    d = c.disks.get(dn.encode())
                    f = next((x for x in (d.files if d else []) if x.sub == fl[0] and x.blocks), None)
                    if f:
                        old = w.read_file(dn, fl[0])
                        new = bytes((b_ + 1) & 0xFF for b_ in old[-7:])
                        w.write_file(dn, fl[0], old[:-7] + new if f.size else b"")
                        cur = w.read_file(dn, fl[0])
                        bs_ = c.block_size
                        # only the blocks whose bytes really differ are 'differences caused by the change'; blocks that
                        # still match their recorded hash are verified correct like any other
                        changed_pos = set(p for k_, (p, s_, h) in enumerate(f.blocks) if old[k_ * bs_:(k_ + 1) * bs_] != cur[k_ * bs_:(k_ + 1) * bs_])
                        classes.add("file changed since sync")
                        break
        why, stt = scrub_and_check(w, case["final"], now, damaged, changed_pos, "final scrub")
        if why:
            return Outcome(ok=False, why=why)
        classes.add("plan " + str(case["final"][0]) + ("" if case["final"][1] is None else " %d" % case["final"][1]))
        nontrivial = bool(stt and stt["times"] >= 3 and 0 < stt["selected"] < stt["with_info"])
        # eventual coverage
        # (only on an array that is healthy and fully synced: a stripe with an error that persists - a file fix gave up, pending
        # blocks left by a sync that failed - is visited every time but can never be refreshed)
        if case["coverage_test"] and stt and not changed_pos and not damaged and not cfparse.has_unsynced(w.content_model()) \
                and w.cmd("check", shim_env={"CLOCK": now}).rc == 0:
            P = 25
            t_first = now + 11 * DAY
            tt = t_first
            for k in range(-(-100 // P) + 1):
                w.cmd("scrub", ["-p", str(P)], shim_env={"CLOCK": tt})
                tt += 11 * DAY
            cN = w.content_model()
            stale = [i for i, v in infos(cN).items() if v.time < (t_first & ~7)]
            if stale:
                return Outcome(ok=False, why="after %d scrubs of %d%% with the clock advancing, stripe %d was never checked" % (-(-100 // P) + 1, P, stale[0]))
            classes.add("coverage rounds")
        fp = hashlib.sha1(json.dumps(case, sort_keys=True).encode()).hexdigest()[:16]
        sample = {"cfg": case["cfg"], "rounds": [r_["kind"] for r_ in case["rounds"]], "final": case["final"], "final_stats": stt}
        return Outcome(ok=True, fp=fp, nontrivial=nontrivial, classes=sorted(classes), sample=sample)
    finally:
        w.destroy()


def predict_all(w, c):
    """what scrub must conclude for each stripe with info, from the bytes now on disk:
    'ok' (data match their hashes, parity matches) | 'silent' (mismatch on synced, unchanged files or on parity of a fully
    synced stripe) | 'unsynced' (every mismatch explained by a file changed since the sync, a missing file or pending blocks)
    | 'unknown' (harness cannot tell)"""
    import numpy as np
    import gf256
    import parityoracle
    out = {}
    bs = c.block_size
    tab = cfparse.position_table(c)
    column = {m.name: m.position for m in c.maps}
    levels = w.arr.cfg["levels"]
    streams = {l: (w.arr.read_parity(l)[0] or b"") for l in range(levels)}
    cache = {}

    def current(dn, f):
        key = (dn, f.sub)
        if key not in cache:
            p = w.full(dn, f.sub)
            try:
                st_ = os.lstat(p)
                same = st_.st_size == f.size and st_.st_mtime_ns // 10**9 == f.mtime_sec and st_.st_mtime_ns % 10**9 == f.mtime_nsec
                with open(p, "rb") as fh:
                    cache[key] = (fh.read(), same)
            except OSError:
                cache[key] = (None, False)
        return cache[key]
    for pos, row in tab.items():
        if c.info[pos] is None:
            continue
        stripe_unsynced = any(v[0] in (cfparse.CHG, cfparse.REP, cfparse.DELETED) for v in row.values())
        silent = generic = unknown = False
        cols, blks = [], []
        for name, (st_, h, f, idx) in row.items():
            if f is None:
                continue
            dn = name.decode()
            cur, same = current(dn, f)
            if not same:
                # a block of a file changed since the sync makes the tool treat every parity difference of the stripe as
                # expected ("errors are expected" on unsynced blocks): it may not mark it, and the property only forbids marking
                stripe_unsynced = True
            ver = w.store.get(dn, f.sub, f.size, f.mtime_sec, f.mtime_nsec)
            if cur is None:
                generic = True
                continue
            blk = cur[idx * bs:(idx + 1) * bs]
            if len(blk) == 0 and f.size > idx * bs:
                generic = True   # file shorter than recorded: read error
                continue
            cols.append(column[name])
            blks.append(np.frombuffer(parityoracle.block_bytes(cur, idx, bs), dtype=np.uint8))
            if st_ in (cfparse.BLK, cfparse.REP):
                # what scrub compares is the recorded hash with the bytes on disk.  The harness's own registered version is not
                # the reference: a copy of a silently damaged file registers the damaged bytes, while the block carries the hash
                # of the undamaged source, and fix legitimately restores THOSE bytes
                info_ = c.info[pos]
                kind_, seed_ = c.prevhash if (info_ and info_.rehash and c.prevhash and c.prevhash[0] is not None) else c.hash
                if hashes.memhash(kind_, seed_, blk)[:c.hash_size] != h:
                    if (not same) or st_ != cfparse.BLK:
                        generic = True
                    else:
                        silent = True
        if unknown:
            out[pos] = "unknown"
            continue
        if not silent and not generic:
            for lev in range(levels):
                A = gf256.VANDERMONDE if (lev == 2 and w.arr.cfg.get("zparity")) else gf256.CAUCHY
                acc = np.zeros(bs, dtype=np.uint8)
                for col, blk in zip(cols, blks):
                    acc ^= gf256.MUL[A[lev, col]][blk]
                have = streams[lev][pos * bs:(pos + 1) * bs]
                if len(have) < bs:
                    generic = True
                elif have != acc.tobytes():
                    if stripe_unsynced:
                        generic = True
                    else:
                        silent = True
        out[pos] = "silent" if silent else ("unsynced" if generic else "ok")
    return out


def find_damaged(w, c):
    """stripes with info whose data blocks or parity currently differ from the synced version (harness damage)"""
    import numpy as np
    import gf256
    import parityoracle
    out = set()
    if c is None:
        return out
    bs = c.block_size
    tab = cfparse.position_table(c)
    column = {m.name: m.position for m in c.maps}
    levels = w.arr.cfg["levels"]
    streams = {l: (w.arr.read_parity(l)[0] or b"") for l in range(levels)}
    for pos, row in tab.items():
        if c.info[pos] is None:
            continue
        blks, cols = [], []
        hit = False
        ok = True
        for name, (st_, h, f, idx) in row.items():
            if f is None or st_ != cfparse.BLK:
                ok = False
                continue
            data = w.store.get(name.decode(), f.sub, f.size, f.mtime_sec, f.mtime_nsec)
            try:
                cur = w.read_file(name.decode(), f.sub)
            except OSError:
                cur = None
            if data is None or cur is None:
                ok = False
                continue
            if cur[idx * bs:(idx + 1) * bs] != data[idx * bs:(idx + 1) * bs]:
                hit = True
            cols.append(column[name])
            blks.append(np.frombuffer(parityoracle.block_bytes(data, idx, bs), dtype=np.uint8))
        if ok and not hit:
            for lev in range(levels):
                A = gf256.VANDERMONDE if (lev == 2 and w.arr.cfg.get("zparity")) else gf256.CAUCHY
                acc = np.zeros(bs, dtype=np.uint8)
                for col, blk in zip(cols, blks):
                    acc ^= gf256.MUL[A[lev, col]][blk]
                if streams[lev][pos * bs:(pos + 1) * bs] != acc.tobytes():
                    hit = True
        if hit:
            out.add(pos)
    return out
