"""C08: I/O errors never turn into false protection (fault injection with the LD_PRELOAD shim)."""
import hashlib
import json
import os

from hypothesis import strategies as st

import cfparse
import gen
import parityoracle
from pbt import Outcome
from prog import cfg_classes, ev_json
from world import World

PID = "C08"
LEVEL = "fault_enumeration"
RULE = ("Hypothesis cases {config (1..6 levels, 1..4 disks, io cache 1 / 3..128 / default), base tree, pending additions, command, "
        "faults, error limit}: for sync (pending additions and updates) and scrub (full plan) 1..3 faults are injected by the shim: the "
        "n-th read of a generated data file, the n-th write of a generated parity level, the n-th read of a parity level (scrub), "
        "failing with EIO (ENOSPC for writes, in some cases); in thorough mode every read of every file and every write of every level "
        "of the case is failed in turn. The stripe hit is identified from the system-call trace (offset of the failed call). Oracle: the "
        "command exits != 0 and reports the error in its summary; in the content file it leaves, the stripe hit is not 'synced and "
        "healthy' (a block still pending, or the bad mark set) and status shows it; every other stripe the command had to process is "
        "synced with valid parity (C06 oracle) unless the error limit stopped the run; afterwards fix -e + scrub -p bad, or a new sync, "
        "leave no bad or unsynced stripe and the C06 oracle holds. Non-trivial: the fault really fired on a stripe the command was "
        "processing; distinct = (case hash, fault).")
ASSUMPTIONS = [
    "non-split parity, so that the offset of a failed parity call identifies the stripe",
    "faults are injected at the libc call (pread/pwrite return -1 with errno) without performing the call",
]

EIO, ENOSPC = 5, 28


def variants():
    return ["rel", "shim", "oracle"]


def budget(tier):
    return 500 if tier == "quick" else 6000


def decode_case(raw):
    cfgt, base, pend, cmd, faults, limit = raw
    cfg = gen.decode_cfg(cfgt, max_disks=4, allow_split=False, hashsizes=(16, 16, 8))
    cfg["fake_uuid"] = False
    cfg["io_cache"] = [1, None, 3, 4, 8, 32, 128, 1][cfgt[7] % 8]
    bs, nd = cfg["bs_kib"] * 1024, cfg["ndisks"]
    base_steps = [gen.decode_fs((0,) + tuple(t[1:]), bs, nd, odd=False, links=False) for t in base]
    pend_steps = []
    for i, t in enumerate(pend):
        s = gen.decode_fs((0,) + tuple(t[1:]), bs, nd, odd=False, links=False)
        s["name"] = "p%d_%s" % (i, s["name"].replace("/", "_"))
        s["size"] = max(s["size"], 1) * (1 + t[0] % 3)
        pend_steps.append(s)
    fl = [{"kind": ["data_read", "parity_write", "data_read", "parity_write", "parity_read"][a % 5], "target": b, "n": 1 + c % 12,
           "errno": ENOSPC if (a // 5) % 4 == 3 else EIO} for a, b, c in faults]
    command = ["sync", "sync", "scrub", "scrub_pending"][cmd % 4]
    if command == "scrub_pending":
        # scrub of an array with changes that were not synced: files re-stamped, rewritten, grown or cut since the last sync
        pend_steps = []
        for i, t in enumerate(pend):
            op = ["touch", "rewrite", "append", "truncate", "touch"][t[0] % 5]
            st_ = {"op": op, "disk": t[1] % nd, "fi": t[2], "cseed": t[4], "size": gen.size_of(t[3], bs), "kind": 0}
            pend_steps.append(st_)
    return {"cfg": cfg, "base": base_steps, "pending": pend_steps, "command": command, "faults": fl,
            "limit": [None, None, 1, 2][limit % 4]}


def strategy(tier):
    return st.tuples(gen.CFG, st.lists(gen.STEP, min_size=2, max_size=6), st.lists(gen.STEP, min_size=1, max_size=6), st.integers(0, 3),
                     st.lists(st.tuples(st.integers(0, 19), st.integers(0, 15), st.integers(0, 23)), min_size=1, max_size=3),
                     st.integers(0, 3)).map(decode_case)


def healthy_synced(c, pos):
    row = cfparse.position_table(c).get(pos)
    if not row:
        return False
    if any(v[0] != cfparse.BLK for v in row.values()):
        return False
    info = c.info[pos]
    return info is not None and not info.bad


def fault_specs(w, case, c_before):
    """translate generated faults to shim FAIL specs; returns (specs, description)"""
    specs, descr = [], []
    cmd = "scrub" if case["command"] == "scrub_pending" else case["command"]
    files = []
    for dn in w.arr.disk_names():
        for rel in w.list_files(dn):
            if os.path.getsize(w.full(dn, rel)) > 0:
                files.append((dn, rel))
    for f in case["faults"]:
        if f["kind"] == "data_read" and files:
            if cmd == "sync":
                cand = [(dn, rel) for dn, rel in files if rel.startswith(b"p")] or files
            else:
                cand = files
            dn, rel = cand[f["target"] % len(cand)]
            specs.append("pread:/%s/%s:%d:%d" % (dn, rel.decode("latin-1"), f["n"], EIO))
            descr.append({"kind": "data_read", "disk": dn, "file": rel.decode("latin-1"), "n": f["n"]})
        elif f["kind"] == "parity_write" and cmd == "sync":
            lev = f["target"] % w.arr.cfg["levels"]
            name = os.path.basename(w.arr.parity_paths(lev)[0])
            specs.append("pwrite:/par/%s:%d:%d" % (name, f["n"], f["errno"]))
            descr.append({"kind": "parity_write", "level": lev, "n": f["n"], "errno": f["errno"]})
        elif f["kind"] == "parity_read" and cmd == "scrub":
            lev = f["target"] % w.arr.cfg["levels"]
            name = os.path.basename(w.arr.parity_paths(lev)[0])
            specs.append("pread:/par/%s:%d:%d" % (name, f["n"], EIO))
            descr.append({"kind": "parity_read", "level": lev, "n": f["n"]})
    return specs, descr


def fired(trace, bs):
    """[(op, path, offset)] of the injected failures that really happened"""
    out = []
    for line in (trace or b"").decode("latin-1").splitlines():
        p = line.split(" ")
        if len(p) >= 7 and p[2] in ("pread-FAIL", "pwrite-FAIL"):
            out.append((p[2][:-5], p[3], int(p[4])))
    return out


def positions_of(c, fires, bs):
    """stripe positions hit by the fired faults (via the content file's block map for data files)"""
    hit = set()
    for op, path, off in fires:
        if path.startswith("/par/"):
            hit.add(off // bs)
        else:
            parts = path.split("/", 2)
            dn, rel = parts[1], parts[2]
            from c11 import unesc_trace
            relb = unesc_trace(rel)
            d = c.disks.get(dn.encode())
            f = next((x for x in (d.files if d else []) if x.sub == relb), None)
            if f and off // bs < len(f.blocks):
                hit.add(f.blocks[off // bs][0])
    return hit


def run_one(w, case, specs, descr, classes, label):
    """run the command with the faults; returns (why, nontrivial, fire_count)"""
    cmd = case["command"]
    pending_scrub = cmd == "scrub_pending"
    if pending_scrub:
        cmd = "scrub"
    bs = w.arr.bs
    c_pre = w.content_model()
    trf = os.path.join(w.arr.root, "logs", "c08trace%d" % w.arr.ncmd)
    args = ["-E", "-Z"] if cmd == "sync" else ["-p", "full"]
    if case["limit"]:
        args += ["-L", str(case["limit"])]
    run = w.cmd(cmd, args, shim_env={"TRACE": trf, "FAIL": ",".join(specs)})
    if run.timed_out:
        return None, False, 0
    if run.rc < 0:
        return "%s: %s died with signal %d" % (label, cmd, -run.rc), False, 0
    fires = fired(run.trace, bs)
    if not fires:
        return None, False, 0
    try:
        c = w.content_model()
    except cfparse.ContentError as e:
        return "%s: content file not loadable after the failed %s: %s" % (label, cmd, e), False, 0
    hit = positions_of(c, fires, bs)
    # with read-ahead the faults of stripes beyond the one where the command stopped fired in a reader thread but were
    # never looked at: those stripes are not concerned by this run
    import re
    m = re.search(rb"Stopping at block (\d+)", run.err + run.out)
    if m:
        hit = set(p_ for p_ in hit if p_ <= int(m.group(1)))
    kinds = set(op + (":parity" if path.startswith("/par/") else ":data") for op, path, off in fires)
    for k in kinds:
        classes.add("fault " + k)
    if run.rc == 0:
        return "%s: %s exits 0 although %d injected I/O errors fired (%r)" % (label, cmd, len(fires), fires[:2]), True, len(fires)
    eio = run.summary("error_io")
    efile = run.summary("error_file")
    diagnosed = bool(run.tag("error") or run.tag("parity_error")) or b"DANGER" in run.err or b"WARNING! Unexpected" in run.err
    if (eio is None or int(eio[0]) == 0) and (efile is None or int(efile[0]) == 0) and not diagnosed:
        return "%s: %s exits %d but its summary reports no I/O or file error after %r" % (label, cmd, run.rc, fires[:2]), True, len(fires)
    for pos in sorted(hit):
        if healthy_synced(c, pos):
            return "%s: stripe %d was hit by %r but is recorded as synced and healthy" % (label, pos, [f_ for f_ in fires][:2]), True, len(fires)
    stt = w.cmd("status")
    nbad = stt.summary("has_bad")
    nuns = stt.summary("has_unsynced")
    bad_in_content = [p for p in hit if c.info[p] is not None and c.info[p].bad]
    if bad_in_content and (nbad is None or int(nbad[0]) == 0):
        return "%s: stripes marked bad but status reports none" % label, True, len(fires)
    if pending_scrub:
        # the array holds changes the user has not synced: what fix -e / the next sync make of them is not this property's business
        return None, True, len(fires)
    # all other stripes the command had to process: synced with valid parity, unless the run stopped at the error limit
    stopped = b"Stopping at block" in run.err or b"Stopping at block" in run.out
    if not stopped:
        if cmd == "sync":
            tab = cfparse.position_table(c)
            for pos, row in tab.items():
                if pos in hit:
                    continue
                if any(v[0] != cfparse.BLK for v in row.values()):
                    return "%s: stripe %d was not hit by any fault but was left unsynced by a sync that did not stop" % (label, pos), True, len(fires)
        probs, _ = parityoracle.check(w.arr, w.store, exempt_pos=hit)
        if probs:
            return "%s: after the failed %s: %s" % (label, cmd, probs[0]), True, len(fires)
    else:
        classes.add("stopped at the error limit")
    # recovery paths
    if cmd == "sync":
        r2 = w.cmd("sync", ["-E", "-Z"])
        if r2.rc != 0:
            return "%s: the next sync (no faults) exits %d" % (label, r2.rc), True, len(fires)
    fe = w.cmd("fix", ["-e"])
    sb = w.cmd("scrub", ["-p", "bad"])
    c2 = w.content_model()
    left_bad = [i for i, v in enumerate(c2.info) if v is not None and v.bad]
    if left_bad:
        return "%s: after fix -e and scrub -p bad stripes %r are still marked bad" % (label, left_bad[:4]), True, len(fires)
    if cmd == "sync" and cfparse.has_unsynced(c2):
        return "%s: unsynced blocks remain after the repeated sync" % label, True, len(fires)
    probs, _ = w.oracle()
    if probs:
        return "%s: after recovery: %s" % (label, probs[0]), True, len(fires)
    return None, True, len(fires)


def run_case(case, ctx):
    cfg = dict(case["cfg"])
    cfg["rules"] = ["exclude *.unrecoverable"]
    w = World(cfg, ctx.rel, shim=ctx.shim)
    classes = set(cfg_classes(case["cfg"]))
    classes.add("io_cache=%s" % cfg["io_cache"])
    classes.add("command " + case["command"])
    try:
        for s in case["base"]:
            w.fs_step(s)
        r = w.cmd("sync")
        if r.rc != 0:
            return Outcome(ok=True, classes=["base sync refused"])
        if case["command"] in ("sync", "scrub_pending"):
            for s in case["pending"]:
                w.fs_step(s)
        specs, descr = fault_specs(w, case, None)
        if not specs:
            return Outcome(ok=True, classes=["no applicable fault"])
        why, nt, nf = run_one(w, case, specs, descr, classes, "%s with faults %s" % (case["command"], json.dumps(descr)))
        if why:
            known = classify(why, descr, cfg)
            if known:
                fp = hashlib.sha1(json.dumps(case, sort_keys=True).encode()).hexdigest()[:16]
                return Outcome(ok=True, fp=fp, nontrivial=True, classes=sorted(classes), known=[known], sample={"faults": descr})
            return Outcome(ok=False, why=why)
        fp = hashlib.sha1(json.dumps(case, sort_keys=True).encode()).hexdigest()[:16]
        sample = {"cfg": {k: cfg[k] for k in ("levels", "ndisks", "io_cache", "bs_kib")}, "command": case["command"], "faults": descr, "fired": nf, "limit": case["limit"]}
        return Outcome(ok=True, fp=fp, nontrivial=nt, classes=sorted(classes), sample=sample)
    finally:
        w.destroy()


def classify(why, descr, cfg):
    return None
