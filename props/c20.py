"""C20: reports and derived views reflect the recorded state faithfully."""
import hashlib
import json
import os
import shlex

from hypothesis import strategies as st

import cfparse
import gen
from logparse import unesc
from pbt import Outcome
from prog import decode_step, run_history, cfg_classes, ev_json
from world import World

PID = "C20"
LEVEL = "exploration"
RULE = ("Hypothesis cases {config, history, pool pre-content, share}: histories as in C06/C10 (states with pending / deleted blocks, bad "
        "and rehash marks) over trees with duplicate groups of size 1..5 within and across disks, zero-size files, names with spaces, "
        "newlines, CR, colons, backslashes, glob characters, tag-like text and non-UTF-8 bytes, the same sub-path on several disks; pool "
        "directories pre-filled with stale links, wrong links, foreign regular files, empty and non-empty sub-directories; share prefix "
        "set or not. Oracle from the independently parsed content file: list tags = recorded files/links with size, mtime, nsec; list "
        "terminal lines, shell-unescaped, give the same names; dup groups (hash 16, no migration) = groups of fully synced non-empty "
        "files with identical bytes; status has_unsynced / has_unscrubbed / has_bad / has_rehash and the per-stripe block: lines = values "
        "computed from the parse; every log line is a well-formed tag whose name is known (no name can forge a line); pool leaves exactly "
        "one symlink per recorded sub-path resolving to a recording disk, no stale link, no empty dir, foreign files kept. Non-trivial: "
        ">= 1 name needing escapes and a duplicate group >= 2 (dup) / a stale link (pool); distinct = hash of the case.")
ASSUMPTIONS = [
    "terminal (stdout) listings are compared for names without line breaks; names with line breaks are judged on the tag log, the "
    "channel meant for programs (see DESIGN section 7, F5)",
    "dup is judged with hash size 16 and outside a hash migration, as the property states",
]

KNOWN_TAGS = None


def variants():
    return ["rel", "oracle"]


def budget(tier):
    return 400 if tier == "quick" else 6000


def decode_case(raw):
    cfgt, init, dups, prog, poolpre, share = raw
    cfg = gen.decode_cfg(cfgt, hashsizes=(16, 16, 16, 8), allow_split=(cfgt[12] % 16 == 3))
    cfg["pool"] = True
    if share % 3 == 0:
        cfg["share"] = "/mnt/share point"
    bs, nd = cfg["bs_kib"] * 1024, cfg["ndisks"]
    steps = [gen.decode_fs((0,) + tuple(t[1:]), bs, nd) for t in init]
    # duplicate groups: copies of existing files under other names / disks
    for t in dups:
        steps.append({"op": "create", "disk": t[1] % nd, "name": gen.name_of(t[2]), "size": 0, "same_as": [t[3] % nd, t[4] % 7], "cseed": 0})
    return {"cfg": cfg, "init": steps, "prog": [decode_step(sel, t, bs, nd) for sel, t in prog], "poolpre": [list(x) for x in poolpre]}


def strategy(tier):
    return st.tuples(gen.CFG, st.lists(gen.STEP, min_size=2, max_size=10), st.lists(gen.STEP, min_size=0, max_size=8),
                     st.lists(st.tuples(st.integers(0, 8), gen.STEP), min_size=0, max_size=15),
                     st.lists(st.tuples(st.integers(0, 6), st.integers(0, 255)), min_size=0, max_size=6), st.integers(0, 5)).map(decode_case)


def shell_unquote(s):
    """inverse of the tool's shell escaping for names without line breaks (POSIX shell rules)"""
    return shlex.split(s, posix=True)


def check_list(w, c):
    ls = w.cmd("list")
    if ls.rc != 0:
        return "list exits %d" % ls.rc
    want_f, want_l = {}, {}
    for name, d in c.disks.items():
        for f in d.files:
            want_f[(name, f.sub)] = (f.size, f.mtime_sec, f.mtime_nsec)
        for l in d.links:
            want_l[(name, l.sub)] = (l.kind, l.linkto)
    got_f, got_l = {}, {}
    for t in ls.tags:
        if t[0] == b"file" and len(t) >= 7:
            got_f[(t[1], t[2])] = (int(t[3]), int(t[4]), int(t[5]))
        elif t[0] in (b"link_hardlink", b"link_symlink") and len(t) >= 4:
            got_l[(t[1], t[2])] = (t[0][5:].decode(), t[3])
    if got_f != want_f:
        return "list tag lines differ from the recorded files: %r" % (sorted(set(got_f.items()) ^ set(want_f.items()))[:2],)
    if got_l != want_l:
        return "list tag lines differ from the recorded links: %r" % (sorted(set(got_l.items()) ^ set(want_l.items()))[:2],)
    # terminal output: one line per file "<size> <date> <time> <escaped name>"; names without line breaks
    import re
    names_out = set()
    for ln in ls.out.split(b"\n"):
        m = re.match(rb"^\s*(\d+) \d{4}/\d\d/\d\d \d\d:\d\d (.*)$", ln)
        if m:
            esc = m.group(2)
            out = bytearray()
            i = 0
            while i < len(esc):
                if esc[i] == 0x5c and i + 1 < len(esc):
                    out.append(esc[i + 1])
                    i += 2
                else:
                    out.append(esc[i])
                    i += 1
            names_out.add((int(m.group(1)), bytes(out)))
    for (name, sub), (size, _, _) in want_f.items():
        if b"\n" in sub:
            continue
        if not any(sz == size and (n == sub or n.endswith(b"/" + sub)) for sz, n in names_out):
            return "list terminal output does not show file %r (size %d) unambiguously" % (sub, size)
    return None


def check_dup(w, c):
    if c.hash_size != 16 or c.prevhash is not None:
        return None, 0
    r = w.cmd("dup")
    if r.rc not in (0,):
        return "dup exits %d" % r.rc, 0
    # content groups over fully synced non-empty files
    by_content = {}
    for name, d in c.disks.items():
        for f in d.files:
            if f.size == 0 or any(b[1] != cfparse.BLK for b in f.blocks):
                continue
            data = w.store.get(name.decode(), f.sub, f.size, f.mtime_sec, f.mtime_nsec)
            if data is None:
                return None, 0
            by_content.setdefault(data, set()).add((name, f.sub))
    want = set(frozenset(g) for g in by_content.values() if len(g) > 1)
    parent = {}

    def find(x):
        while parent.get(x, x) != x:
            x = parent[x]
        return x
    for t in r.tag("dup"):
        if len(t) >= 6:
            a, b = (t[1], t[2]), (t[3], t[4])
            parent.setdefault(a, a)
            parent.setdefault(b, b)
            parent[find(a)] = find(b)
    groups = {}
    for x in parent:
        groups.setdefault(find(x), set()).add(x)
    # files that are not fully synced (pending / copy-detected blocks) may or may not be reported: when they are, their
    # bytes must equal the group's; the exact-partition claim is judged over synced files
    synced = set(x for g in by_content.values() for x in g)
    content_of = {}
    for name, d in c.disks.items():
        for f in d.files:
            content_of[(name, f.sub)] = w.store.get(name.decode(), f.sub, f.size, f.mtime_sec, f.mtime_nsec)
    for g in groups.values():
        datas = set(content_of.get(x) for x in g)
        if len(datas) != 1 or None in datas:
            return "dup puts files with different contents in one group: %r" % (sorted(g)[:3],), 0
    got = set(frozenset(x for x in g if x in synced) for g in groups.values())
    got = set(g for g in got if len(g) > 1)
    if got != want:
        return "dup groups %r differ from the groups of identical synced files %r" % (sorted(map(sorted, got))[:2], sorted(map(sorted, want))[:2]), 0
    nd = sum(len(g) - 1 for g in groups.values())
    cnt = r.summary("dup_count")
    if cnt is None or int(cnt[0]) != nd:
        return "dup summary count %r, but %d dup lines were printed" % (cnt, nd), 0
    return None, len(want)


def check_status(w, c):
    r = w.cmd("status", ["-G"])
    if r.rc != 0:
        return "status exits %d" % r.rc
    tab = cfparse.position_table(c)
    unsynced = 0
    for pos in range(c.blockmax):
        row = tab.get(pos, {})
        valid = any(v[0] in (cfparse.BLK, cfparse.CHG, cfparse.REP) for v in row.values())
        invalid = any(v[0] in (cfparse.CHG, cfparse.REP, cfparse.DELETED) for v in row.values())
        if valid and invalid:
            unsynced += 1
    infos = [(i, v) for i, v in enumerate(c.info) if v is not None]
    bad = [i for i, v in infos if v.bad]
    exp = {"has_unsynced": [unsynced], "has_unscrubbed": [sum(1 for i, v in infos if v.justsynced)], "has_rehash": [sum(1 for i, v in infos if v.rehash)],
           "has_bad": [len(bad), bad[0] if bad else 0, bad[-1] if bad else 0]}
    if c.blockmax == 0:
        return None
    for k, v in exp.items():
        g = r.summary(k)
        if g is None or [int(x) for x in g[:len(v)]] != v:
            return "status summary %s = %r, the content file says %r" % (k, g, v)
    blk = {}
    for t in r.tags:
        if t[0] == b"block" and len(t) >= 7:
            blk[int(t[1])] = (int(t[2]), t[3] == b"used", t[4] == b"unsynced", t[5] == b"bad", t[6] == b"rehash")
    for i, v in infos:
        row = tab.get(i, {})
        valid = any(x[0] in (cfparse.BLK, cfparse.CHG, cfparse.REP) for x in row.values())
        invalid = any(x[0] in (cfparse.CHG, cfparse.REP, cfparse.DELETED) for x in row.values())
        w_ = (v.time, valid, invalid, v.bad, v.rehash)
        if blk.get(i) != w_:
            return "status block line for stripe %d is %r, the content file says %r" % (i, blk.get(i), w_)
    return None


def check_tags_wellformed(runs):
    """no file name can forge a tag line: every log line must start with a tag name the tool emits by itself"""
    known = (b"summary", b"block", b"block_noinfo", b"block_count", b"info_count", b"info_time", b"zerosubsecond", b"file", b"link_hardlink",
             b"link_symlink", b"dup", b"msg", b"conf", b"version", b"unixtime", b"time", b"command", b"argv", b"blocksize", b"data", b"mode",
             b"parity", b"2-parity", b"3-parity", b"4-parity", b"5-parity", b"6-parity", b"z-parity", b"content", b"filter", b"pool", b"share",
             b"memory", b"resolve", b"statfs", b"hash", b"split", b"content_write", b"content_info", b"autosave", b"nohidden", b"thermal", b"uuid",
             b"device", b"mapping", b"disk", b"uname", b"sigint", b"signal", b"scan", b"pool_mkdir", b"pool_link", b"pool_remove", b"error", b"touch",
             b"selftest", b"compiler", b"cpu", b"system", b"thread", b"locale", b"filesystem", b"outofparity", b"hash_summary", b"file_count", b"hashsize")
    return known


def check_forgery(w, c):
    """names that look like tag lines must not appear as lines of their own"""
    r = w.cmd("status", ["-v"])
    forged = []
    names = set()
    for name, d in c.disks.items():
        for f in d.files:
            names.add(f.sub)
    for line in r.log.split(b"\n"):
        if line.startswith(b"summary:") or line.startswith(b"block:"):
            continue
    # a newline inside a name splits a log line: detect lines that are the tail of a name
    tails = set()
    for n in names:
        if b"\n" in n:
            for part in n.split(b"\n")[1:]:
                tails.add(part)
    for line in r.log.split(b"\n"):
        for tpart in tails:
            if tpart and line.startswith(tpart):
                forged.append(line[:80])
    if forged:
        return "status log contains a raw line break taken from a file name (a name can forge tag lines): %r" % forged[0]
    return None


POOL_PRE = ["stale_link", "foreign_file", "empty_dir", "nonempty_dir", "wrong_link", "link_where_dir", "wrong_link_same_time"]


def prepare_pool(w, c, poolpre):
    pool = os.path.join(w.arr.rootb, b"pool")
    made = {"foreign": [], "stale": 0, "link_over_dir": []}
    subs = sorted(set(f.sub for d in c.disks.values() for f in d.files))
    for kind, x in poolpre:
        k = POOL_PRE[kind]
        try:
            if k == "stale_link":
                p = os.path.join(pool, b"stale%d" % x)
                os.symlink(b"/nowhere/%d" % x, p)
                made["stale"] += 1
            elif k == "foreign_file":
                p = os.path.join(pool, b"foreign%d.txt" % x)
                with open(p, "wb") as f:
                    f.write(b"keep me")
                made["foreign"].append(p)
            elif k == "empty_dir":
                os.makedirs(os.path.join(pool, b"emptydir%d" % x, b"inner"), exist_ok=True)
            elif k == "nonempty_dir":
                os.makedirs(os.path.join(pool, b"keepdir%d" % x), exist_ok=True)
                p = os.path.join(pool, b"keepdir%d" % x, b"foreign.bin")
                with open(p, "wb") as f:
                    f.write(b"keep me too")
                made["foreign"].append(p)
                os.symlink(b"/nowhere", os.path.join(pool, b"keepdir%d" % x, b"stale"))
                made["stale"] += 1
            elif k == "link_where_dir":
                # what an earlier pool run leaves when a pooled FILE has since become a DIRECTORY of the array
                deep = [(nm, f.sub) for nm, d in c.disks.items() for f in d.files if b"/" in f.sub]
                if deep:
                    nm, sub = deep[x % len(deep)]
                    top = sub.split(b"/")[0]
                    p = os.path.join(pool, top)
                    if not os.path.lexists(p):
                        os.symlink(os.path.join(w.arr.disk_dirb(nm.decode()), top), p)
                        made["link_over_dir"].append(top)
                        made["stale"] += 1
            elif k in ("wrong_link", "wrong_link_same_time") and subs:
                sub = subs[x % len(subs)]
                p = os.path.join(pool, sub)
                os.makedirs(os.path.dirname(p), exist_ok=True)
                os.symlink(b"/wrong/target", p)
                if k == "wrong_link_same_time":
                    # what an earlier pool run leaves for a file that has since moved (other disk, other share) keeping its time-stamp
                    f0 = next(f for d in c.disks.values() for f in d.files if f.sub == sub)
                    ns = f0.mtime_sec * 10**9 + max(f0.mtime_nsec, 0)
                    os.utime(p, ns=(ns, ns), follow_symlinks=False)
                made["stale"] += 1
        except OSError:
            pass
    return made


def check_pool(w, c, made):
    allsubs = set(f.sub for d in c.disks.values() for f in d.files) | set(l.sub for d in c.disks.values() for l in d.links)
    for s_ in allsubs:
        parts = s_.split(b"/")
        for i in range(1, len(parts)):
            if b"/".join(parts[:i]) in allsubs:
                return None  # a file on one disk is a directory on another: cannot be pooled both ways
    r = w.cmd("pool")
    if r.rc != 0:
        return "pool exits %d: %s" % (r.rc, r.err[-200:].decode("latin-1"))
    pool = os.path.join(w.arr.rootb, b"pool")
    share = w.arr.cfg.get("share")
    # recorded sub-paths (files and links) and who records them
    rec = {}
    for name, d in c.disks.items():
        for f in d.files:
            rec.setdefault(f.sub, set()).add(name)
        for l in d.links:
            rec.setdefault(l.sub, set()).add(name)
    # a sub-path that is a file on one disk and a directory prefix of a recorded path on another cannot be pooled both ways
    subs = set(rec)
    for s_ in subs:
        parts = s_.split(b"/")
        for i in range(1, len(parts)):
            if b"/".join(parts[:i]) in subs:
                return None
    found = {}
    for dp, dn, fn in os.walk(pool):
        for n in fn + dn:
            full = os.path.join(dp, n)
            rel = os.path.relpath(full, pool)
            if os.path.islink(full):
                found[rel] = os.readlink(full)
            elif os.path.isdir(full):
                if not os.listdir(full):
                    return "pool left the empty directory %r" % rel
            else:
                if full not in made["foreign"]:
                    return "unexpected regular file %r in the pool" % rel
    for p in made["foreign"]:
        if not os.path.exists(p):
            return "pool removed the foreign file %r" % os.path.relpath(p, pool)
    if set(found) != set(rec):
        return "pool links %r differ from the recorded sub-paths %r" % (sorted(set(found) - set(rec))[:2], sorted(set(rec) - set(found))[:2])
    for sub, target in found.items():
        ok = False
        for name in rec[sub]:
            if share:
                exp = share.encode() + b"/" + name + b"/" + sub
            else:
                exp = w.arr.disk_dirb(name.decode()) + b"/" + sub
            if target == exp:
                ok = True
        if not ok:
            return "pool link %r points to %r which is not a recording disk's copy" % (sub, target)
    return None


def run_case(case, ctx):
    cfg = dict(case["cfg"])
    cfg["rules"] = ["exclude *.unrecoverable"]
    w = World(cfg, ctx.rel)
    classes = set(cfg_classes(case["cfg"]))
    try:
        for s in case["init"]:
            w.fs_step(s)
        r = w.cmd("sync")
        if r.rc != 0:
            return Outcome(ok=True, classes=["initial sync refused"])
        fail, hs = run_history(w, case["prog"])
        if hs["timeout"]:
            return Outcome(ok=True, inconclusive=True)
        if fail:
            return Outcome(ok=False, why=fail)
        if any(s["op"] == "fix" for s in case["prog"]):
            classes.add("history with fix")
        c = w.content_model()
        if c is None:
            return Outcome(ok=True, classes=["no content"])
        odd = any(any(ch in f.sub for ch in (b" ", b"\n", b"\r", b":", b"\\", b"*", b"\xff")) for d in c.disks.values() for f in d.files)
        why = check_list(w, c)
        if why:
            return Outcome(ok=False, why=why)
        why, ngroups = check_dup(w, c)
        if why:
            return Outcome(ok=False, why=why)
        why = check_status(w, c)
        if why:
            return Outcome(ok=False, why=why)
        why = check_forgery(w, c)
        if why:
            return Outcome(ok=False, why=why)
        made = prepare_pool(w, c, case["poolpre"])
        data_before = w.arr.snap_data()
        why = check_pool(w, c, made)
        known = []
        import treecmp
        if not why:
            for dn, tree in w.arr.snap_data().items():
                diffs = treecmp.same_tree(treecmp.user_entries(data_before[dn]), treecmp.user_entries(tree))
                if diffs:
                    why = "pool changed data disk %s: %s" % (dn, diffs[0])
        if why and made["link_over_dir"]:
            # signature of the listed finding: every recorded sub-path that is not pooled correctly, and every change on
            # a data disk, lies below a stale link that stood where the array now has a directory
            tops = made["link_over_dir"]
            pool = os.path.join(w.arr.rootb, b"pool")
            bad_subs = []
            for nm, d in c.disks.items():
                for f in d.files:
                    p_ = os.path.join(pool, f.sub)
                    if not os.path.islink(p_):
                        bad_subs.append(f.sub)
            changed = []
            for dn, tree in w.arr.snap_data().items():
                a_, b_ = treecmp.user_entries(data_before[dn]), treecmp.user_entries(tree)
                changed += [k for k in set(a_) | set(b_) if a_.get(k, (None,))[:2] != b_.get(k, (None,))[:2]]
            under = lambda path: any(path == t or path.startswith(t + b"/") for t in tops)
            aborted_under = False
            if why.startswith("pool exits"):
                import re
                m = re.search(r"(?:symlink|directory) '([^']*)'", why)
                if m:
                    rel = os.path.relpath(m.group(1).encode("latin-1"), pool)
                    aborted_under = under(rel)
            if aborted_under or ((bad_subs or changed) and all(under(x) for x in bad_subs + changed)):
                known.append("C20-pool-stale-link-over-dir")
                why = None
        if why:
            return Outcome(ok=False, why=why)
        # last stage: silent corruption found by a scrub, so that the recorded state holds bad marks (on stripes already scrubbed
        # and on stripes that were only synced); status must report exactly what the content file records
        import random
        import damage
        rnd = random.Random(json.dumps(case["poolpre"]) + str(len(case["prog"])))
        if rnd.random() < 0.6:
            cands = []
            for nm, d in c.disks.items():
                for f in d.files:
                    p_ = w.full(nm.decode(), f.sub)
                    try:
                        st_ = os.lstat(p_)
                    except OSError:
                        continue
                    if os.path.islink(p_) or st_.st_nlink != 1 or st_.st_size != f.size or st_.st_mtime_ns // 10**9 != f.mtime_sec:
                        continue
                    cands += [(nm.decode(), f.sub, i) for i, b in enumerate(f.blocks) if b[1] == cfparse.BLK]
            rnd.shuffle(cands)
            nflip = 0
            for dn_, sub_, i_ in cands[:1 + rnd.randrange(3)]:
                if damage.corrupt_file_block(w, dn_, sub_, i_, c.block_size, rnd, shape=rnd.choice(["bit", "block"])):
                    nflip += 1
            if nflip:
                sc = w.cmd("scrub", ["-p", rnd.choice(["full", "new", "full"])])
                if sc.timed_out:
                    return Outcome(ok=True, inconclusive=True)
                c = w.content_model()
                nbad = sum(1 for v in c.info if v is not None and v.bad)
                if nbad:
                    classes.add("bad marks recorded by a scrub")
                    if any(v is not None and v.bad and v.justsynced for v in c.info):
                        classes.add("bad mark on a stripe that was never scrubbed clean")
                why = check_status(w, c)
                if why:
                    return Outcome(ok=False, why="after a scrub that found silent errors: " + why)
        if ngroups:
            classes.add("duplicate groups")
        if made["stale"]:
            classes.add("stale pool links")
        if cfg.get("share"):
            classes.add("share prefix")
        if odd:
            classes.add("names needing escapes")
        fp = hashlib.sha1(json.dumps(case, sort_keys=True).encode()).hexdigest()[:16]
        sample = {"cfg": case["cfg"], "dup_groups": ngroups, "stale_links": made["stale"], "events": ev_json(w.events, 20)}
        return Outcome(ok=True, fp=fp, nontrivial=odd and (ngroups > 0 or made["stale"] > 0), classes=sorted(classes), sample=sample, known=known)
    finally:
        w.destroy()
