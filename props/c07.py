"""C07: interrupted sync and fix are safe and resumable.
Crash points are enumerated / sampled with the LD_PRELOAD shim (process death at a
state-changing system call: before / after / short write) and graceful stops are injected as
SIGINT / SIGTERM at a parity-write index."""
import hashlib
import json
import os
import shutil
import subprocess

from hypothesis import strategies as st

import cfparse
import damage
import gen
import parityoracle
import treecmp
from pbt import Outcome
from prog import cfg_classes, ev_json
from world import World

PID = "C07"
LEVEL = "fault_enumeration"
RULE = ("Hypothesis cases {config, base tree, pending change set (adds only | adds+deletes+updates), fault}: a base tree is synced, the "
        "pending changes are applied, a traced sync counts its N state-changing system calls (creat, write, pwrite, rename, ftruncate, "
        "fallocate, fsync, remove, mkdir, link, symlink, utimens), then the array is restored and the sync re-run with the process "
        "killed before / after / in the middle (short write) of call k -- a sample of k in quick, every k for the case in thorough -- "
        "or stopped gracefully by SIGINT/SIGTERM raised at a parity-write index. After each interruption: data disks byte- and "
        "mtime-identical; every content copy is a complete valid file; status/diff/list load it; C06 oracle holds for every copy; with "
        "adds-only pending sets each previously synced file is rebuilt after losing any single device (abrupt) or up to N devices "
        "(graceful); a plain sync then completes and one device-loss sample recovers everything. Fix: killed at call k then re-run must "
        "end with the same tree as an uninterrupted fix. Non-trivial: the interruption fell strictly inside the command (0<k<N-1) with a "
        "non-empty pending set; distinct = (case hash, k, mode).")
ASSUMPTIONS = [
    "crash model = process death at a system call; the page cache survives (no power-loss reordering)",
    "enumeration of k uses --test-io-cache 1 (deterministic call order) or the default threaded mode, as generated",
    "the previously synced files are the recovery obligation while a sync with additions only was interrupted",
]


def variants():
    return ["rel", "shim", "oracle"]


def budget(tier):
    return 45 if tier == "quick" else 24


def decode_case(raw):
    cfgt, base, pend, pmode, faults, fixmode = raw
    cfg = gen.decode_cfg(cfgt, max_disks=4, allow_split=(cfgt[12] % 8 == 3))
    cfg["fake_uuid"] = False
    cfg["io_cache"] = [1, 1, None, 4][cfgt[7] % 4]
    cfg["autosave_at"] = [None, None, 2, 5][cfgt[13] % 4]
    cfg["hashsize"] = 16  # the property's quantifier does not range over hash sizes; reduced hashes cannot tell ZERO/INVALID marks apart
    bs, nd = cfg["bs_kib"] * 1024, cfg["ndisks"]
    base_steps = [gen.decode_fs((0,) + tuple(t[1:]), bs, nd, odd=False, links=False) for t in base]
    adds_only = pmode % 2 == 0
    pend_steps = []
    for t in pend:
        if adds_only:
            s = gen.decode_fs((0,) + tuple(t[1:]), bs, nd, odd=False, links=False)
            s["name"] = "new_" + s["name"].replace("/", "_")
        else:
            s = gen.decode_fs(t, bs, nd, odd=False, links=False)
        pend_steps.append(s)
    return {"cfg": cfg, "base": base_steps, "pending": pend_steps, "adds_only": adds_only,
            "faults": [{"kfrac": a, "mode": ["before", "after", "short", "SIGINT", "SIGTERM"][b % 5]} for a, b in faults],
            "fix": fixmode % 3 == 0}


def strategy(tier):
    return st.tuples(gen.CFG, st.lists(gen.STEP, min_size=3, max_size=8), st.lists(gen.STEP, min_size=1, max_size=6),
                     st.integers(0, 3), st.lists(st.tuples(st.integers(0, 999), st.integers(0, 9)), min_size=4, max_size=8),
                     st.integers(0, 5)).map(decode_case)


class Saved(object):
    """backup / restore of the whole scratch root (cp -a keeps mtimes and hard links)"""

    _n = 0

    def __init__(self, w):
        self.w = w
        Saved._n += 1
        self.dir = w.arr.root + ".bak%d" % Saved._n
        if os.path.exists(self.dir):
            shutil.rmtree(self.dir)
        subprocess.run(["cp", "-a", w.arr.root, self.dir], check=True)

    def restore(self):
        root = self.w.arr.root
        for n in os.listdir(root):
            p = os.path.join(root, n)
            if n == "logs":
                continue
            if os.path.isdir(p) and not os.path.islink(p):
                shutil.rmtree(p)
            else:
                os.unlink(p)
        for n in os.listdir(self.dir):
            if n == "logs":
                continue
            subprocess.run(["cp", "-a", os.path.join(self.dir, n), os.path.join(root, n)], check=True)

    def drop(self):
        shutil.rmtree(self.dir, ignore_errors=True)


def content_copies_ok(w):
    """every existing configured copy must be a complete valid file; at least one must exist.
    returns (error or None, list of parsed copies)"""
    good = []
    for p in w.arr.content_paths():
        if not os.path.exists(p):
            continue
        data = open(p, "rb").read()
        try:
            good.append((p, cfparse.parse(data), data))
        except cfparse.ContentError as e:
            return "content copy %s is not a complete valid file: %s" % (os.path.basename(os.path.dirname(p)) + "/" + os.path.basename(p), e), good
    if not good:
        return "no content copy survived", good
    return None, good


def lose_device(w, dev):
    if dev[0] == "d":
        top = w.arr.disk_dirb(dev)
        for n in os.listdir(top):
            full = os.path.join(top, n)
            if n.startswith(b"content."):
                continue
            if os.path.isdir(full) and not os.path.islink(full):
                shutil.rmtree(full)
            else:
                os.unlink(full)
    else:
        for p in w.arr.parity_paths(int(dev[1:])):
            if os.path.exists(p):
                os.unlink(p)


def check_old_files_recoverable(w, old_snap, devsets, label):
    """after an interrupted adds-only sync: each previously synced file must be rebuilt by fix"""
    sv = Saved(w)
    try:
        for devs in devsets:
            for d in devs:
                lose_device(w, d)
            fx = w.cmd("fix")
            if fx.timed_out:
                return None
            now = w.arr.snap_data()
            for d in devs:
                if d[0] != "d":
                    continue
                for rel, e in treecmp.user_entries(old_snap[d]).items():
                    if e[0] != "f":
                        continue
                    h = now[d].get(rel)
                    if h is None or h[0] != "f" or h[1] != e[1]:
                        return "%s: after losing %s, fix (rc=%d) did not rebuild previously synced file %s/%s" % (label, "+".join(devs), fx.rc, d, rel.decode("latin-1"))
            sv.restore()
    finally:
        sv.drop()
    return None


def after_interrupted_sync(w, case, pre_data, old_snap, graceful, label, torn_parity=False):
    # (1) data untouched
    now = w.arr.snap_data()
    for dn in w.arr.disk_names():
        diffs = treecmp.same_tree(treecmp.user_entries(pre_data[dn]), treecmp.user_entries(now[dn]))
        if diffs:
            return "%s: data disk %s modified by the interrupted sync: %s" % (label, dn, diffs[0])
    # (2) content copies complete; commands can load
    err, copies = content_copies_ok(w)
    if err:
        return "%s: %s" % (label, err)
    for cmd, okrc in (("status", (0,)), ("diff", (0, 2)), ("list", (0,))):
        r = w.cmd(cmd)
        if r.timed_out:
            return None
        if r.rc not in okrc:
            return "%s: %s cannot load the state after the interruption (rc=%d): %s" % (label, cmd, r.rc, r.err[-200:].decode("latin-1"))
    # (3) C06 on every copy -- only when nothing but additions is pending: with deletions pending sync shrinks the parity
    # and removes deleted blocks' contribution before the new content is saved, which harms only stripes of files the
    # user deleted; neither C06 (whose histories do not contain arbitrary kill points) nor C07 promises more
    for p, c, data in (copies if case["adds_only"] else []):
        probs, _ = parityoracle.check(w.arr, w.store, content_bytes=data)
        if probs:
            return "%s: with content copy %s: %s" % (label, os.path.basename(os.path.dirname(p)), probs[0])
    # (4) previously synced files stay recoverable (adds only)
    # a parity block torn by a short write is itself one damaged block of its stripe: with a single parity level
    # no implementation can also rebuild a lost data block of that stripe, so the clause needs N >= 2 there
    if case["adds_only"] and not (torn_parity and w.arr.cfg["levels"] < 2):
        devs = w.arr.disk_names() + ["p%d" % l for l in range(w.arr.cfg["levels"])]
        n = w.arr.cfg["levels"]
        sets = [[d] for d in w.arr.disk_names()]
        if graceful and n >= 2:
            import itertools
            allsets = [list(c) for c in itertools.combinations(devs, n) if any(x[0] == "d" for x in c)]
            sets += allsets[:6]
        why = check_old_files_recoverable(w, old_snap, sets, label)
        if why:
            return why
    # (5) resume
    r = w.cmd("sync", ["-E", "-Z"])
    if r.timed_out:
        return None
    if r.rc != 0:
        return "%s: sync after the interruption fails (rc=%d): %s" % (label, r.rc, r.err[-300:].decode("latin-1"))
    snap = w.arr.snap_data()
    c = w.content_model()
    if cfparse.has_unsynced(c):
        return "%s: resumed sync left unsynced blocks" % label
    probs, _ = w.oracle()
    if probs:
        return "%s: after resumed sync: %s" % (label, probs[0])
    d0 = w.arr.disk_names()[0]
    lose_device(w, d0)
    fx = w.cmd("fix")
    if fx.rc != 0:
        return "%s: after resumed sync, fix of lost %s exits %d" % (label, d0, fx.rc)
    diffs = treecmp.compare_restored(snap[d0], w.arr.snap_data()[d0])
    if diffs:
        return "%s: after resumed sync and loss of %s: %s" % (label, d0, diffs[0])
    return None


def run_autosave_lag(case, ctx):
    """scenario (regression of a repaired defect): an autosave point while a parity writer thread lags behind.  One parity level
    is slowed down by the shim, the process is killed after each of the state-changing calls that follow the autosave's content
    rename, and the content file then on disk must not record as synced any stripe whose parity has not been written."""
    from sandbox import default_cfg
    cfg = default_cfg(ndisks=2, levels=case.get("levels", 3), bs_kib=1, content=["par"], autosave_at=case.get("autosave_at", 5), io_cache=case.get("io_cache"))
    w = World(cfg, ctx.rel, shim=ctx.shim)
    sv = None
    try:
        w.fs_step({"op": "create", "disk": 0, "name": "a", "size": 20 * 1024, "cseed": 1, "kind": 0})
        w.fs_step({"op": "create", "disk": 1, "name": "b", "size": 20 * 1024, "cseed": 2, "kind": 0})
        sv = Saved(w)
        trf = os.path.join(w.arr.root, "logs", "aslag")
        ref = w.cmd("sync", shim_env={"TRACE": trf, "SLOW": case["slow"]})
        if ref.rc != 0 or ref.timed_out:
            return Outcome(ok=True, inconclusive=True, why="reference sync failed")
        # index (among the state-changing calls) of the rename that installs the autosaved content file: the second one
        calls = [l.split(" ") for l in (ref.trace or b"").decode("latin-1").splitlines()]
        sc = [c for c in calls if len(c) >= 7 and c[2] in ("write", "pwrite", "rename", "ftruncate", "fallocate", "fsync", "unlink", "mkdir", "link", "symlink", "utimens")]
        ren = [i for i, c in enumerate(sc) if c[2] == "rename" and c[3].endswith("/content")]
        if len(ren) < 3:
            return Outcome(ok=True, inconclusive=True, why="no autosave in the reference run")
        n = 0
        for k in range(ren[1], min(len(sc), ren[1] + case.get("window", 14))):
            sv.restore()
            r = w.cmd("sync", shim_env={"KILL": "%d:after" % k, "SLOW": case["slow"]})
            if r.timed_out:
                return Outcome(ok=True, inconclusive=True, why="timeout")
            if r.rc != 137:
                continue
            n += 1
            try:
                c = w.content_model()
            except cfparse.ContentError as e:
                return Outcome(ok=False, why="sync killed after call %d (autosave scenario): content not loadable: %s" % (k, e))
            if c is None:
                continue
            probs, _ = w.oracle()
            if probs:
                return Outcome(ok=False, why="sync killed after call %d, just after an autosave with a lagging parity writer: %s" % (k, probs[0]))
        return Outcome(ok=True, nontrivial=n > 0, classes=["autosave with a lagging parity writer"], n_eval=max(1, n),
                       fp="autosave-lag-%s" % case["slow"], sample={"kill_points": n, "slow": case["slow"]})
    finally:
        if sv:
            sv.drop()
        w.destroy()


def run_case(case, ctx):
    if case.get("kind") == "autosave_lag":
        return run_autosave_lag(case, ctx)
    cfg = dict(case["cfg"])
    cfg["rules"] = ["exclude *.unrecoverable"]
    w = World(cfg, ctx.rel, shim=ctx.shim)
    sv = None
    thorough = ctx.tier == "thorough"
    try:
        for s in case["base"]:
            w.fs_step(s)
        r = w.cmd("sync")
        if r.rc != 0:
            return Outcome(ok=True, classes=["base sync refused"])
        old_snap = w.arr.snap_data()
        for s in case["pending"]:
            w.fs_step(s)
        pre_data = w.arr.snap_data()
        sv = Saved(w)
        # traced reference run to count the state-changing calls and parity writes
        cntf = os.path.join(w.arr.root, "logs", "count")
        trf = os.path.join(w.arr.root, "logs", "trace")
        ref = w.cmd("sync", ["-E", "-Z"], shim_env={"COUNT": cntf, "TRACE": trf})
        if ref.rc != 0 or not os.path.exists(cntf):
            return Outcome(ok=True, classes=["reference sync refused"])
        nsc = int(open(cntf).read())
        tr = (ref.trace or b"").decode("latin-1").splitlines()
        npw = sum(1 for l in tr if " pwrite /par/" in l)
        classes = set(cfg_classes(case["cfg"]))
        classes.add("adds only" if case["adds_only"] else "adds+deletes+updates")
        if cfg.get("autosave_at"):
            classes.add("autosave point")
        classes.add("io_cache=%s" % cfg.get("io_cache"))
        fps = []
        points = []
        det = case.get("_detail") or {}
        if "k" in det and "mode" in det:
            points.append((det["k"], det["mode"]))   # replay of a saved failure: exactly that interruption
        elif thorough and nsc <= 150:
            for k in range(nsc):
                for m in ("before", "after", "short"):
                    points.append((k, m))
            for j in range(1, npw + 1):
                points.append((j, "SIGINT" if j % 2 else "SIGTERM"))
        else:
            for f in case["faults"]:
                if f["mode"] in ("SIGINT", "SIGTERM"):
                    if npw:
                        points.append((1 + f["kfrac"] % npw, f["mode"]))
                else:
                    points.append((f["kfrac"] * nsc // 1000, f["mode"]))
        nontrivial = 0
        n_done = 0
        base_fp = hashlib.sha1(json.dumps({k_: v_ for k_, v_ in case.items() if k_ != "_detail"}, sort_keys=True).encode()).hexdigest()[:12]
        for (k, mode) in points:
            sv.restore()
            graceful = mode in ("SIGINT", "SIGTERM")
            if graceful:
                env = {"SIGNAL": "pwrite:/par/:%d:%d" % (k, 2 if mode == "SIGINT" else 15)}
            else:
                env = {"KILL": "%d:%s" % (k, mode)}
            r = w.cmd("sync", ["-E", "-Z"], shim_env=env)
            if r.timed_out:
                return Outcome(ok=True, inconclusive=True, why="timeout")
            label = "sync %s at %s %d of %d" % ("stopped by " + mode if graceful else "killed " + mode, "parity write" if graceful else "call", k, npw if graceful else nsc)
            if not graceful and r.rc != 137:
                # the call index was not reached (schedule differs): nothing was interrupted
                continue
            torn = mode == "short" and b"KILL-short /par/" in ((r.trace or b"") if r.trace else b"")
            if mode == "short":
                torn = True  # conservatively: any short write may have hit a parity file
            why = after_interrupted_sync(w, case, pre_data, old_snap, graceful, label, torn_parity=torn)
            if why:
                return Outcome(ok=False, why=why, detail={"k": k, "mode": mode, "nsc": nsc})
            classes.add("mode " + mode)
            n_done += 1
            if graceful or 0 < k < nsc - 1:
                nontrivial += 1
                fps.append("%s:%d:%s" % (base_fp, k, mode))
        # interrupted fix
        if case["fix"]:
            sv.restore()
            r = w.cmd("sync", ["-E", "-Z"])
            if r.rc == 0:
                d0 = w.arr.disk_names()[case["faults"][0]["kfrac"] % len(w.arr.disk_names())]
                lose_device(w, d0)
                sv2 = Saved(w)
                try:
                    ref = w.cmd("fix", shim_env={"COUNT": cntf})
                    nfx = int(open(cntf).read()) if os.path.exists(cntf) else 0
                    want = w.arr.snap_data()
                    ks = range(nfx) if (thorough and nfx <= 100) else sorted(set(f["kfrac"] * nfx // 1000 for f in case["faults"]))
                    for k in ks:
                        for mode in (("before", "after", "short") if thorough else (case["faults"][k % len(case["faults"])]["mode"] if case["faults"][k % len(case["faults"])]["mode"] in ("before", "after", "short") else "before",)):
                            sv2.restore()
                            r = w.cmd("fix", shim_env={"KILL": "%d:%s" % (k, mode)})
                            if r.rc != 137:
                                continue
                            r2 = w.cmd("fix")
                            have = w.arr.snap_data()
                            for dn in w.arr.disk_names():
                                diffs = treecmp.same_tree(treecmp.user_entries(want[dn]), treecmp.user_entries(have[dn]), with_mtime=False)
                                if diffs:
                                    return Outcome(ok=False, why="fix killed %s call %d of %d then re-run (rc=%d): disk %s differs from an uninterrupted fix: %s" % (mode, k, nfx, r2.rc, dn, diffs[0]))
                            classes.add("fix interrupted")
                            n_done += 1
                            if 0 < k < nfx - 1:
                                nontrivial += 1
                                fps.append("%s:fix:%d:%s" % (base_fp, k, mode))
                finally:
                    sv2.drop()
        sample = {"cfg": case["cfg"], "pending": case["pending"][:4], "state_changing_calls": nsc, "parity_writes": npw,
                  "points": [list(p) for p in points[:12]]}
        return Outcome(ok=True, fp=base_fp, nontrivial=nontrivial > 0, classes=sorted(classes), sample=sample,
                       n_eval=max(1, n_done), fps=fps or None)
    finally:
        if sv:
            sv.drop()
        w.destroy()
