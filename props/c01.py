"""C01: complete recovery from any loss within the parity level."""
import hashlib
import json
import os

from hypothesis import strategies as st

import cfparse
import damage
import gen
import hashes
import treecmp
from pbt import Outcome
from prog import decode_step, run_history, cfg_classes, ev_json
from world import World

PID = "C01"
LEVEL = "exploration"
RULE = ("Hypothesis cases {config, history, damage}: configurations as in C06 (1..6 levels, z-parity, 1..5 disks, block/hash sizes, split "
        "parity, content copies on data disks or apart, scan order, io cache); a random history (adds, deletes, moves, partial -B syncs, "
        "-F/-R/-h/-N syncs, scrub/fix/rehash in between) closed by a sync that exits 0; then damage of weight <= N: either <= N whole "
        "devices (data disk emptied / files deleted / truncated / grown / bytes flipped with restored mtime; parity deleted / truncated "
        "/ overwritten / one split deleted) or, per stripe of the independently parsed block map, <= N victim blocks among data and "
        "parity; all but one content copy may be deleted. Oracle: fix exits 0 with no unrecoverable report, every file/link/dir of the "
        "snapshot taken at the sync is back with its bytes and mtime (collision rule honoured), check passes, the C06 parity oracle "
        "holds. Non-trivial: the damage destroyed >= 1 data block that had to be rebuilt; distinct = hash of the case.")
ASSUMPTIONS = [
    "silent corruption (unchanged size and mtime) is generated only with hash size >= 8 bytes; with 2/4-byte hashes only erasures "
    "(missing/truncated files, missing/short parity) are generated, because hash-guided choices may legitimately collide",
    "a data disk that is 'lost' keeps its (empty) mount directory, as the manual prescribes for fix",
    "mtime may stay unset only for files named in a collision: log line that share size and mtime with another recorded file",
]


def variants():
    return ["rel", "oracle"]


def budget(tier):
    return 2000 if tier == "quick" else 10000


def decode_case(raw):
    cfgt, init, prog, dmode, dints, dseed, drop = raw
    cfg = gen.decode_cfg(cfgt)
    bs, nd = cfg["bs_kib"] * 1024, cfg["ndisks"]
    init_steps = [gen.decode_fs((0,) + tuple(t[1:]), bs, nd) for t in init]
    steps = [decode_step(sel, t, bs, nd) for sel, t in prog]
    silent = cfg["hashsize"] >= 8
    dm = {"seed": dseed}
    if dmode % 3 == 2 and silent:
        dm["mode"] = "stripes"
    else:
        dm["mode"] = "devices"
        dm["victims"] = damage.decode_devices(dints, cfg, cfg["levels"], allow_silent=silent)
    return {"cfg": cfg, "init": init_steps, "prog": steps, "damage": dm, "drop_content": drop}


def strategy(tier):
    return st.tuples(gen.CFG, st.lists(gen.STEP, min_size=3, max_size=12),
                     st.lists(st.tuples(st.integers(0, 8), gen.STEP), min_size=0, max_size=25),
                     st.integers(0, 5), st.lists(st.tuples(st.integers(0, 63), st.integers(0, 63)), min_size=1, max_size=8),
                     st.integers(0, 1 << 20), st.integers(0, 255)).map(decode_case)


def recorded_collisions(c, diskname):
    """names of recorded files of a disk that share (size, mtime) with another recorded file"""
    seen = {}
    for f in c.disks.get(diskname.encode(), cfparse.Disk(files=[])).files:
        seen.setdefault((f.size, f.mtime_sec, f.mtime_nsec), []).append(f.sub)
    out = set()
    for names in seen.values():
        if len(names) > 1:
            out.update(names)
    return out


def verify_restored(w, c, snap, fixrun, allow_collision=True):
    """compare every data disk with the snapshot taken at the sync"""
    now = w.arr.snap_data()
    coll_logged = {}
    for t in fixrun.tag("collision"):
        if len(t) >= 3:
            coll_logged.setdefault(t[1].decode(), set()).add(t[2])
    for dn in w.arr.disk_names():
        exempt = set()
        if allow_collision:
            exempt = coll_logged.get(dn, set()) & recorded_collisions(c, dn)
        diffs = treecmp.compare_restored(snap[dn], now[dn], mtime_exempt=exempt)
        if diffs:
            return "disk %s after fix: %s" % (dn, "; ".join(diffs[:3]))
    return None


def run_case(case, ctx):
    cfg = dict(case["cfg"])
    cfg["rules"] = ["exclude *.unrecoverable"]
    w = World(cfg, ctx.rel)
    try:
        for s in case["init"]:
            w.fs_step(s)
        fail, hs = run_history(w, case["prog"])
        if hs["timeout"]:
            return Outcome(ok=True, inconclusive=True, why="timeout")
        if fail:
            return Outcome(ok=False, why=fail)
        r = w.cmd("sync", ["-E", "-Z"])
        if r.timed_out:
            return Outcome(ok=True, inconclusive=True, why="timeout")
        if r.rc != 0:
            return Outcome(ok=True, classes=["closing sync refused"])
        snap = w.arr.snap_data()
        c = w.content_model()
        if cfparse.has_unsynced(c):
            return Outcome(ok=False, why="sync exited 0 but the content file still has unsynced blocks")
        # content copies: delete all but one when asked
        cps = [p for p in w.arr.content_paths() if os.path.exists(p)]
        keep = cps[case["drop_content"] % len(cps)]
        dropped = 0
        if case["drop_content"] & 0x80:
            for p in cps:
                if p != keep:
                    os.unlink(p)
                    dropped += 1
        dm = case["damage"]
        classes = set(cfg_classes(case["cfg"])) | set(hs["classes"])
        if dm["mode"] == "devices":
            led = damage.apply_devices(w, c, dm["victims"], dm["seed"], keep_content=keep)
            hit = led["data_blocks_hit"]
            ndev = len(dm["victims"])
            if ndev == cfg["levels"]:
                classes.add("lost devices = N")
            kinds = set(v["dev"][0] for v in dm["victims"])
            if kinds == {"d", "p"}:
                classes.add("data+parity mixed")
            for v in dm["victims"]:
                classes.add("shape " + v["dev"][0] + ":" + v["shape"])
        else:
            led = damage.apply_stripes(w, c, dm["seed"], cfg["levels"])
            hit = led["data_blocks_hit"]
            classes.add("stripe-level damage")
            if led["max_per_stripe"] == cfg["levels"]:
                classes.add("stripe with N victims")
        if dropped:
            classes.add("content copies dropped")
        fx = w.cmd("fix")
        if fx.timed_out:
            return Outcome(ok=True, inconclusive=True, why="timeout")
        if fx.rc != 0:
            return Outcome(ok=False, why="fix exited %d after damage within the parity level: %s" % (fx.rc, (fx.err[-300:] + fx.out[-200:]).decode("latin-1")))
        un = fx.summary("error_unrecoverable")
        if (un and un[0] != b"0") or fx.tag("unrecoverable") or any(t[1] == b"unrecoverable" for t in fx.tag("status")):
            return Outcome(ok=False, why="fix reported unrecoverable errors for damage within the parity level")
        why = verify_restored(w, c, snap, fx)
        if why:
            return Outcome(ok=False, why=why)
        ck = w.cmd("check")
        if ck.rc != 0 or (ck.summary("error") or [b"0"])[0] != b"0":
            return Outcome(ok=False, why="check after fix exits %d: %s" % (ck.rc, ck.err[-300:].decode("latin-1")))
        # all content copies that exist are still loadable and parity is consistent with the synced data
        probs, stats = w.oracle()
        if probs:
            return Outcome(ok=False, why="after fix: " + probs[0])
        fp = hashlib.sha1(json.dumps(case, sort_keys=True).encode()).hexdigest()[:16]
        sample = {"cfg": case["cfg"], "damage": dm, "ledger": {k: v for k, v in led.items() if k != "hit"}, "events": ev_json(w.events, 25)}
        return Outcome(ok=True, fp=fp, nontrivial=hit > 0, classes=sorted(classes), sample=sample)
    finally:
        w.destroy()
