"""C14: safety interlocks refuse destructive syncs and change nothing."""
import hashlib
import json
import os
import shutil
import subprocess
import time

from hypothesis import strategies as st

import cfparse
import gen
import treecmp
from pbt import Outcome
from prog import decode_step, run_history, cfg_classes, ev_json
from world import World

PID = "C14"
LEVEL = "exploration"
RULE = ("Hypothesis cases {config, synced tree, optional ordinary pending changes, trigger}: triggers: every file of one disk missing; "
        "every file of one disk rewritten; a previously non-empty file now of size 0; a parity file (any level, any split) truncated "
        "below the used size or deleted; blocksize or hashsize changed in the configuration; a disk with recorded files dropped from "
        "the configuration; a second command started while a first one (sync/scrub/check/fix/status, paused by the shim at a generated "
        "state-changing call) holds the lock. Oracle: without the override sync exits != 0 and every content and parity file is "
        "byte-identical (an absent parity file may become an empty file), data untouched; with the override (-E, -Z, -F, restored "
        "configuration, first command finished) the same sync exits 0 and the C06 oracle holds; control cases with a non-triggering "
        "change of the same kind sync without override. Non-trivial: the trigger was applied to a device with >= 1 synced file; "
        "distinct = hash of the case.")
ASSUMPTIONS = [
    "opening a parity file creates it, so a parity file that was absent may be absent or zero-length after a refused sync",
    "the lock is tested against commands that take it (every command except those run with --test-skip-lock)",
]

TRIGGERS = ["all_missing", "all_rewritten", "zero_size", "parity_short", "parity_deleted", "blocksize", "hashsize", "disk_dropped", "disk_renamed", "lock",
            "control_some_missing", "control_zero_new"]


def variants():
    return ["rel", "shim", "oracle"]


def budget(tier):
    return 400 if tier == "quick" else 6000


def decode_case(raw):
    cfgt, init, pend, trig, a, b = raw
    cfg = gen.decode_cfg(cfgt, max_disks=4)
    bs, nd = cfg["bs_kib"] * 1024, cfg["ndisks"]
    init_steps = [gen.decode_fs((0,) + tuple(t[1:]), bs, nd, odd=False, links=False) for t in init]
    # every disk gets at least one non-empty file
    for d in range(nd):
        init_steps.append({"op": "create", "disk": d, "name": "keep%d" % d, "size": bs + 7 + d, "cseed": 77 + d, "kind": 0})
    return {"cfg": cfg, "init": init_steps, "pending": [gen.decode_fs(t, bs, nd, odd=False, links=False) for t in pend],
            "trigger": TRIGGERS[trig], "a": a, "b": b}


def strategy(tier):
    return st.tuples(gen.CFG, st.lists(gen.STEP, min_size=1, max_size=8), st.lists(gen.STEP, min_size=0, max_size=3),
                     st.sampled_from(range(len(TRIGGERS))), st.integers(0, 255), st.integers(0, 255)).map(decode_case)


def protected(w):
    snap = w.arr.snap_all()
    keys = set(os.path.relpath(p, w.arr.root).encode() for p in w.arr.content_paths() + w.arr.all_parity_paths())
    return {k: v for k, v in snap.items() if k in keys}


def compare_protected(before, after):
    for k in set(before) | set(after):
        x, y = before.get(k), after.get(k)
        if x is None:
            if k.startswith(b"par/") and y[0] == "f" and y[2] == 0:
                continue  # absent parity file created empty by the open
            return "%r was created" % k
        if y is None:
            return "%r was removed" % k
        if x[1] != y[1]:
            return "%r was modified" % k
    return None


def run_case(case, ctx):
    cfg = dict(case["cfg"])
    cfg["rules"] = ["exclude *.unrecoverable"]
    w = World(cfg, ctx.rel, shim=ctx.shim)
    classes = set(cfg_classes(case["cfg"]))
    trig = case["trigger"]
    classes.add("trigger " + trig)
    try:
        for s in case["init"]:
            w.fs_step(s)
        if trig in ("all_missing", "all_rewritten") and case["b"] % 2 == 0:
            # the disk also holds a recorded empty directory, which stays in place when all its files go
            w.fs_step({"op": "mkdir", "disk": case["a"] % cfg["ndisks"], "name": "spool%d/inner" % (case["b"] % 7)})
            classes.add("disk keeps a recorded empty directory")
        r = w.cmd("sync")
        if r.rc != 0:
            return Outcome(ok=True, classes=["base sync refused"])
        c = w.content_model()
        for s in case["pending"]:
            if trig in ("parity_short", "parity_deleted"):
                # deletions or overwrites could legitimately lower the parity size the new state requires:
                # keep only additions under fresh names
                if s["op"] != "create":
                    continue
                s = dict(s, name="fresh_" + s["name"].replace("/", "_"))
            if trig in ("all_missing", "all_rewritten", "control_some_missing") and s.get("disk", 0) % cfg["ndisks"] == case["a"] % cfg["ndisks"]:
                continue
            w.fs_step(s)
        nd = cfg["ndisks"]
        d = case["a"] % nd
        dn = "d%d" % (d + 1)
        override = []
        first_args = []
        expect_refuse = True
        undo = None
        if trig in ("all_missing", "control_some_missing"):
            files = w.list_files(d)
            rec = [f.sub for f in c.disks[dn.encode()].files] if dn.encode() in c.disks else []
            victims = [f for f in files if f in rec]
            if trig == "control_some_missing":
                if len(victims) < 2:
                    return Outcome(ok=True, classes=["control not applicable"])
                victims = victims[:-1]
                expect_refuse = False
            for f in victims:
                os.unlink(w.full(d, f))
            override = ["-E"]
        elif trig == "all_rewritten":
            for f in w.list_files(d):
                w.write_file(d, f, w.read_file(d, f) + b"x")
            override = ["-E"]
        elif trig in ("zero_size", "control_zero_new"):
            if trig == "control_zero_new":
                w.write_file(d, b"brand_new_empty", b"")
                expect_refuse = False
            else:
                rec = {f.sub: f for f in c.disks[dn.encode()].files} if dn.encode() in c.disks else {}
                files = [f for f in w.list_files(d) if os.path.getsize(w.full(d, f)) > 0 and f in rec and rec[f].size > 0]
                if not files:
                    return Outcome(ok=True, classes=["no candidate file"])
                f = files[case["b"] % len(files)]
                w.write_file(d, f, b"")
            override = ["-Z"]
        elif trig in ("parity_short", "parity_deleted"):
            lev = case["a"] % cfg["levels"]
            paths = [p for p in w.arr.parity_paths(lev) if os.path.exists(p) and os.path.getsize(p) > 0]
            if not paths:
                return Outcome(ok=True, classes=["no parity"])
            p = paths[case["b"] % len(paths)]
            if trig == "parity_deleted":
                os.unlink(p)
            else:
                sz = os.path.getsize(p)
                # the used size of the level: highest synced position + 1 (independent parse); cut below it
                used = max([pos for pos, row in cfparse.position_table(c).items()] + [-1]) + 1
                loc = __import__("damage").parity_locate(w.arr, c, lev, max(0, used - 1))
                if not loc or loc[0] != p:
                    paths2 = [q for q in paths if loc and q == loc[0]]
                    if not paths2:
                        return Outcome(ok=True, classes=["no used split"])
                    p = paths2[0]
                cut = (case["b"] * 997) % (loc[1] + w.arr.bs)
                os.truncate(p, cut // w.arr.bs * w.arr.bs)
            override = ["-F"]
        elif trig == "blocksize":
            old = cfg["bs_kib"]
            w.arr.cfg["bs_kib"] = 2 if old != 2 else 4
            w.arr.write_conf()

            def undo():
                w.arr.cfg["bs_kib"] = old
                w.arr.write_conf()
        elif trig == "hashsize":
            old = cfg["hashsize"]
            w.arr.cfg["hashsize"] = 8 if old != 8 else 16
            w.arr.write_conf()

            def undo():
                w.arr.cfg["hashsize"] = old
                w.arr.write_conf()
        elif trig == "disk_renamed":
            # the disk's line is given another name (same directory, or an unrelated empty one): without usable UUIDs (the
            # harness runs with --test-skip-device) the recorded disk is simply missing from the configuration, with any number
            # of data disks
            if any(x == dn for x in (cfg.get("content") or [])):
                return Outcome(ok=True, classes=["content on renamed disk"])
            if cfg.get("fake_uuid"):
                # with usable UUIDs a renamed disk is recognised and renamed in the content file: legitimate
                return Outcome(ok=True, classes=["renamed disk recognised by its UUID (legitimate)"])
            other = None
            if case["b"] % 2:
                other = os.path.join(w.arr.root, "unrelated_empty")
                os.makedirs(other, exist_ok=True)
                classes.add("renamed disk points to an unrelated empty directory")
                first_args = ["-E"]   # no override exists for a disk missing from the configuration: --force-empty must not help
            w.arr.cfg["conf_names"] = {dn: ("renamed%d" % (case["b"] % 5), other)}
            w.arr.write_conf()

            def undo():
                w.arr.cfg["conf_names"] = {}
                w.arr.write_conf()
        elif trig == "disk_dropped":
            if nd < 2:
                return Outcome(ok=True, classes=["single disk"])
            w.arr.cfg["removed"] = [dn]
            w.arr.cfg["content"] = [x for x in (w.arr.cfg.get("content") or []) ] or None
            if any(x == dn for x in (cfg.get("content") or [])):
                return Outcome(ok=True, classes=["content on dropped disk"])
            w.arr.write_conf()

            def undo():
                w.arr.cfg["removed"] = []
                w.arr.write_conf()
        pre_data = w.arr.snap_data()
        before = protected(w)
        if trig == "lock":
            first = ["sync", "scrub", "check", "fix", "status", "diff", "list", "dup"][case["a"] % 8]
            # commands that change no state have no state-changing call to pause at: they are held at one of their read-only opens
            # of a content file (which every command reads only after taking the lock) instead
            ro_holder = first in ("status", "diff", "list", "dup", "check") or (first == "scrub" and case["b"] % 2 == 0)
            gate = os.path.join(w.arr.root, "logs", "gate")
            k = 1 + case["b"] % 12
            arr = w.arr
            argv = [ctx.rel, "-c", arr.conf_path()] + arr.base_opts() + ([] if first in ("status", "diff") else []) + [first]
            env = dict(os.environ)
            env.update({"LD_PRELOAD": ctx.shim, "VERIF_ROOT": arr.root})
            if ro_holder:
                env["VERIF_PAUSE_OPEN"] = "%d:%s" % ((case["b"] // 2) % 2, gate)
            else:
                env["VERIF_PAUSE"] = "%d:%s" % (k, gate)
            p1 = subprocess.Popen(argv, stdout=subprocess.PIPE, stderr=subprocess.PIPE, env=env, cwd=arr.root)
            t0 = time.time()
            waiting = False
            while time.time() - t0 < 20:
                if os.path.exists(gate + ".waiting"):
                    waiting = True
                    break
                if p1.poll() is not None:
                    break
                time.sleep(0.002)
            if not waiting:
                p1.wait()
                return Outcome(ok=True, classes=["first command finished before the pause point"])
            before = protected(w)  # the first command may legitimately have written before pausing
            r2 = w.cmd("sync", ["-E", "-Z"])
            after = protected(w)
            open(gate, "w").close()
            out1, err1 = p1.communicate(timeout=60)
            if r2.rc == 0:
                return Outcome(ok=False, why="sync ran while %s (paused at %s) held the lock" % (first, "a read of a content file" if ro_holder else "its state-changing call %d" % k))
            why = compare_protected(before, after)
            if why:
                return Outcome(ok=False, why="sync refused for the lock but %s" % why)
            r3 = w.cmd("sync", ["-E", "-Z"])
            if r3.rc != 0 and b"Insufficient parity space" in r3.err:
                return Outcome(ok=True, classes=sorted(classes | {"parity limit reached (legitimate refusal)"}))
            if r3.rc != 0:
                return Outcome(ok=False, why="sync still refused (rc=%d) after the first command ended: %s" % (r3.rc, r3.err[-200:].decode("latin-1")))
            classes.add("lock holder " + first)
        else:
            r1 = w.cmd("sync", first_args)
            if r1.timed_out:
                return Outcome(ok=True, inconclusive=True)
            if expect_refuse:
                if r1.rc == 0:
                    return Outcome(ok=False, why="sync proceeded despite trigger %s on %s" % (trig, dn), detail=ev_json(w.events, 30))
                why = compare_protected(before, protected(w))
                if why:
                    return Outcome(ok=False, why="sync refused for %s but %s" % (trig, why))
                for x in w.arr.disk_names():
                    diffs = treecmp.same_tree(treecmp.user_entries(pre_data[x]), treecmp.user_entries(w.arr.snap_data()[x]))
                    if diffs:
                        return Outcome(ok=False, why="refused sync modified data disk %s: %s" % (x, diffs[0]))
                if undo:
                    undo()
                r2 = w.cmd("sync", override + ([] if trig not in ("all_missing", "all_rewritten") else []))
            else:
                r2 = r1
            if r2.rc != 0:
                # an ordinary pending change may itself need another override; add them and retry once
                r2 = w.cmd("sync", sorted(set(override + ["-E", "-Z"])))
                if r2.rc != 0 and b"Insufficient parity space" in r2.err:
                    return Outcome(ok=True, classes=["parity limit reached (legitimate refusal)"])
                if r2.rc != 0:
                    return Outcome(ok=False, why="with the override (%s) sync still fails for trigger %s (rc=%d): %s" % (" ".join(override) or "restored configuration", trig, r2.rc, r2.err[-200:].decode("latin-1")))
        probs, stats = w.oracle()
        if probs:
            return Outcome(ok=False, why="after the overridden sync: " + probs[0])
        c2 = w.content_model()
        if cfparse.has_unsynced(c2):
            return Outcome(ok=False, why="overridden sync left unsynced blocks")
        fp = hashlib.sha1(json.dumps(case, sort_keys=True).encode()).hexdigest()[:16]
        sample = {"cfg": case["cfg"], "trigger": trig, "device": dn, "override": override}
        return Outcome(ok=True, fp=fp, nontrivial=True, classes=sorted(classes), sample=sample)
    finally:
        w.destroy()
