"""C17: parity split over several files behaves as one parity (twin runs: single-file vs split)."""
import hashlib
import json
import os

from hypothesis import strategies as st

import cfparse
import gen
import parityoracle
import treecmp
from pbt import Outcome
from prog import decode_step, run_command, cfg_classes, ev_json, register_touch, lose_files, rebless_after_fix, COMMAND_OPS
from world import World

PID = "C17"
LEVEL = "exploration"
RULE = ("Hypothesis cases {config, splits per level 1..8 (at least one level split), per-split limit L (not block aligned), program}: the same program (file-system "
        "steps growing and shrinking the array across split boundaries, syncs incl. -F/-R/-B, scrub, fix after deleting one split file or "
        "all of them) is executed on twin arrays: A with one parity file per level, B with the split layout and --test-parity-limit. After "
        "every command: recorded split sizes are block multiples and the files are at least that long; the concatenation of the splits "
        "cut to their recorded sizes is byte-identical to A's parity on every stripe that holds a block; between consecutive saved states "
        "only the last used split (and empty ones after it) changes size on growth and space is released from the end on shrink; the C06 "
        "oracle holds through the recorded mapping; exit statuses of A and B agree; finally one device loss (a data disk or a single split "
        "file) is repaired to the synced snapshot, unused trailing splits can be dropped from the configuration and a used one cannot. "
        "Non-trivial: >= 2 splits non-empty at some point and >= 1 growth across a boundary; distinct = hash of the case.")
ASSUMPTIONS = [
    "a sync that ends with 'Insufficient parity space' under the test limit is a legitimate refusal: the case is counted as trivial",
    "scan order alpha and untrusted inodes, so that both arrays allocate identically",
]


def variants():
    return ["rel", "oracle"]


def budget(tier):
    return 400 if tier == "quick" else 3000


def decode_case(raw):
    cfgt, nsp, lim, init, prog, lossi = raw
    cfg = gen.decode_cfg(cfgt, max_disks=4, allow_split=False)
    cfg["order"] = "alpha"
    cfg["fake_uuid"] = False
    cfg["hash"] = cfg["hash"] or "spooky2"
    bs, nd = cfg["bs_kib"] * 1024, cfg["ndisks"]
    # 1..8 files per level: one level in eight keeps a single file beside split ones (at least one level is always split, which is
    # what makes the content file record per-split sizes for every level)
    splits = [1 if nsp[l % len(nsp)] % 8 == 7 else 2 + (nsp[l % len(nsp)] % 7) for l in range(cfg["levels"])]
    if max(splits) < 2:
        splits[-1] = 2
    limit = (2 + lim[0] % 10) * bs + lim[1] * 7 % bs
    steps = []
    for sel, t in prog:
        if sel <= 5:
            s = gen.decode_fs(t if sel >= 3 else (0,) + tuple(t[1:]), bs, nd, odd=False, links=False)
            if s["op"] in ("create", "append") and "same_as" not in s:
                s["size"] = s["size"] * (1 + t[0] % 4) + bs * (t[0] % 3)
            steps.append(s)
        elif sel <= 8:
            steps.append(gen.decode_sync(t))
        else:
            steps.append([{"op": "scrub", "plan": "full"}, {"op": "lose_split", "level": t[1], "split": t[2]}, {"op": "lose_level", "level": t[1]},
                          {"op": "fix", "mode": "all"}, {"op": "check"}, {"op": "raise_limit", "by": 1 + t[2] % 6}][t[1] % 6])
    return {"cfg": cfg, "splits": splits, "limit": limit, "init": [gen.decode_fs((0,) + tuple(t[1:]), bs, nd, odd=False, links=False) for t in init],
            "prog": steps, "loss": lossi}


def strategy(tier):
    return st.tuples(gen.CFG, st.lists(st.integers(0, 7), min_size=1, max_size=6), st.tuples(st.integers(0, 255), st.integers(0, 255)),
                     st.lists(gen.STEP, min_size=3, max_size=10), st.lists(st.tuples(st.integers(0, 9), gen.STEP), min_size=4, max_size=30),
                     st.integers(0, 255)).map(decode_case)


def split_sizes(c, levels):
    return {l: [s.size for s in c.parities[l].splits] for l in range(levels) if l in c.parities}


def check_twins(wa, wb, prev_sizes, label):
    """returns (why, sizes, info)"""
    ca, cb = wa.content_model(), wb.content_model()
    if ca is None or cb is None:
        return None, prev_sizes, {}
    levels = wa.arr.cfg["levels"]
    bs = cb.block_size
    if ca.blockmax != cb.blockmax:
        return "%s: twin arrays allocate differently (blockmax %d vs %d)" % (label, ca.blockmax, cb.blockmax), prev_sizes, {}
    ta, tb = cfparse.position_table(ca), cfparse.position_table(cb)
    sizes = split_sizes(cb, levels)
    info = {"nonempty": 0, "grew_across": False}
    for lev in range(levels):
        par = cb.parities.get(lev)
        if par is None or par.kind != "Q":
            return "%s: level %d of the split array has no per-split record" % (label, lev), sizes, info
        files = wb.arr.read_parity(lev)
        total = 0
        for s, sp in enumerate(par.splits):
            if sp.size is None:
                continue
            if sp.size % bs:
                return "%s: level %d split %d recorded size %d is not a block multiple" % (label, lev, s, sp.size), sizes, info
            if sp.size is None:
                continue
            if sp.size and (files[s] is None or len(files[s]) < sp.size):
                # tolerated only while the harness itself removed that file and no fix ran yet
                if (lev, s) not in wb.lost_splits and lev not in wb.lost_levels:
                    return "%s: level %d split %d file is shorter (%s) than its recorded size %d" % (label, lev, s, None if files[s] is None else len(files[s]), sp.size), sizes, info
            total += sp.size
        if all(sp.size is not None for sp in par.splits) and total < cb.blockmax * bs:
            return "%s: level %d splits hold %d bytes, %d stripes need %d" % (label, lev, total, cb.blockmax, cb.blockmax * bs), sizes, info
        if any(sp.size is None for sp in par.splits):
            continue
        ne = sum(1 for sp in par.splits if sp.size)
        info["nonempty"] = max(info["nonempty"], ne)
        # growth / shrink discipline
        if prev_sizes and lev in prev_sizes and len(prev_sizes[lev]) == len(sizes[lev]) and None not in prev_sizes[lev] and None not in sizes[lev]:
            old, new = prev_sizes[lev], sizes[lev]
            p = 0
            while p < len(old) and old[p] == new[p]:
                p += 1
            if p < len(old):
                if sum(new) >= sum(old):
                    if any(old[i] for i in range(p + 1, len(old))):
                        return "%s: level %d grew in split %d although later splits were already in use: %r -> %r" % (label, lev, p, old, new), sizes, info
                    if any(old[i_] == 0 and new[i_] > 0 for i_ in range(1, len(new))):
                        info["grew_across"] = True   # a further split came into use: growth across a boundary
                else:
                    if any(new[i] for i in range(p + 1, len(new))):
                        return "%s: level %d shrank split %d while later splits stay in use: %r -> %r" % (label, lev, p, old, new), sizes, info
        # byte identity with the single-file twin on stripes holding blocks
        if lev in wb.lost_levels or any(l == lev for (l, s) in wb.lost_splits) or lev in wa.lost_levels:
            continue
        sb, pr = parityoracle.parity_stream(wb.arr, cb, lev)
        sa = wa.arr.read_parity(lev)[0] or b""
        for pos in sorted(tb):
            rowa, rowb = ta.get(pos, {}), tb[pos]
            if not all(v[0] == cfparse.BLK for v in rowb.values()) or not all(v[0] == cfparse.BLK for v in rowa.values()):
                continue
            if sa[pos * bs:(pos + 1) * bs] != sb[pos * bs:(pos + 1) * bs]:
                return "%s: level %d stripe %d: split parity differs from the single-file parity" % (label, lev, pos), sizes, info
    probs, _ = wb.oracle()
    if probs and not wb.lost_levels and not wb.lost_splits:
        return "%s: split array: %s" % (label, probs[0]), sizes, info
    return None, sizes, info


def run_case(case, ctx):
    cfga = dict(case["cfg"])
    cfga["rules"] = ["exclude *.unrecoverable"]
    cfgb = dict(cfga)
    cfgb["splits"] = list(case["splits"])
    cfgb["parity_limit"] = case["limit"]
    wa, wb = World(cfga, ctx.rel), World(cfgb, ctx.rel)
    for w in (wa, wb):
        w.lost_splits, w.lost_levels = set(), set()
    classes = set(cfg_classes(case["cfg"]))
    classes.add("max splits %d" % max(case["splits"]))
    try:
        for s in case["init"]:
            wa.fs_step(s)
            wb.fs_step(s)
        sizes = None
        nonempty, grew = 0, False
        steps = list(case["prog"]) + [{"op": "sync"}]
        for i, s in enumerate(steps):
            op = s["op"]
            if op == "raise_limit":
                # the disks holding the splits got more room (what the per-split limit of the test option stands for):
                # already filled splits keep their recorded size, only the last used one may grow
                # (the option derives each split's limit pseudo-randomly from the base value: pick the next base for which
                # no split of any level gets less room than it had)
                old = wb.arr.cfg["parity_limit"]

                def eff(base, sp, lev):
                    # (split and level are unsigned 32-bit values in the tool: the sum wraps)
                    return base + ((123562341 + sp * 634542351 + lev * 983491341) & 0xFFFFFFFF) % base
                pairs = [(sp, lev) for lev in range(cfga["levels"]) for sp in range(wb.arr.nsplits(lev))]
                new = old + s["by"] * wb.arr.bs
                for _ in range(64):
                    if all(eff(new, sp, lev) >= eff(old, sp, lev) for sp, lev in pairs):
                        break
                    new += wb.arr.bs
                else:
                    continue
                wb.arr.cfg["parity_limit"] = new
                classes.add("per-split limit raised")
                continue
            if op in ("lose_split", "lose_level"):
                # loss + repair as one step on a clean (fully synced) state, so that both twins stay comparable
                ra, rb = wa.cmd("sync", ["-E", "-Z"]), wb.cmd("sync", ["-E", "-Z"])
                if ra.rc != 0 or rb.rc != 0:
                    if b"Insufficient parity space" in rb.err:
                        return Outcome(ok=True, classes=sorted(classes | {"parity limit reached (legitimate refusal)"}))
                    continue
                lev = s["level"] % cfga["levels"]
                pa = wa.arr.parity_paths(lev)
                pb = wb.arr.parity_paths(lev)
                if op == "lose_level":
                    for p in pa + pb:
                        if os.path.exists(p):
                            os.unlink(p)
                    classes.add("whole level lost")
                else:
                    used = [k for k, p in enumerate(pb) if os.path.exists(p) and os.path.getsize(p)]
                    if not used:
                        continue
                    k = used[s["split"] % len(used)]
                    os.unlink(pb[k])
                    classes.add("single split file lost")
                fa, fb = wa.cmd("fix"), wb.cmd("fix")
                if fb.rc != 0 or fa.rc != 0:
                    return Outcome(ok=False, why="step %d: fix after losing parity (%s) exits %d (single-file twin %d): %s" % (i, op, fb.rc, fa.rc, fb.err[-200:].decode("latin-1")))
                why, sizes, inf = check_twins(wa, wb, sizes, "after step %d (%s + fix)" % (i, op))
                if why:
                    return Outcome(ok=False, why=why, detail=ev_json(wb.events, 40))
                ck = wb.cmd("check")
                if ck.rc != 0:
                    return Outcome(ok=False, why="step %d: check after repairing the lost parity exits %d" % (i, ck.rc))
                continue
            if op in COMMAND_OPS:
                ra = run_command(wa, dict(s))
                rb = run_command(wb, dict(s))
                if ra.timed_out or rb.timed_out:
                    return Outcome(ok=True, inconclusive=True)
                if b"Insufficient parity space" in rb.err:
                    return Outcome(ok=True, classes=sorted(classes | {"parity limit reached (legitimate refusal)"}))
                if op == "fix":
                    rebless_after_fix(wa)
                    rebless_after_fix(wb)
                    if ra.rc == 0:
                        wa.lost_levels.clear()
                    if rb.rc == 0:
                        wb.lost_levels.clear()
                        wb.lost_splits.clear()
                if op == "sync" and (s.get("F") or s.get("R")) and rb.rc == 0:
                    wa.lost_levels.clear()
                    wb.lost_levels.clear()
                    wb.lost_splits.clear()
                lostany = wa.lost_levels or wb.lost_levels or wb.lost_splits
                if (ra.rc == 0) != (rb.rc == 0) and not wb.lost_splits:
                    return Outcome(ok=False, why="step %d (%s): single-file array exits %d, split array exits %d: %s" % (i, json.dumps(s), ra.rc, rb.rc, rb.err[-200:].decode("latin-1")))
                if op in ("sync", "fix", "scrub"):
                    why, sizes, inf = check_twins(wa, wb, sizes, "after step %d (%s)" % (i, op))
                    if why:
                        return Outcome(ok=False, why=why, detail=ev_json(wb.events, 40))
                    nonempty = max(nonempty, inf.get("nonempty", 0))
                    grew = grew or inf.get("grew_across", False)
                classes.add(op)
            else:
                wa.fs_step(s)
                wb.fs_step(s)
        # closing: repair everything, then one loss sample on the split array
        for w in (wa, wb):
            if w.lost_levels or getattr(w, "lost_splits", None):
                w.cmd("fix")
                w.lost_levels.clear()
                w.lost_splits.clear()
        rb = wb.cmd("sync", ["-E", "-Z"])
        ra = wa.cmd("sync", ["-E", "-Z"])
        if rb.rc != 0 or ra.rc != 0:
            return Outcome(ok=True, classes=sorted(classes | {"closing sync refused"}))
        why, sizes, inf = check_twins(wa, wb, None, "after the closing sync")
        if why:
            return Outcome(ok=False, why=why)
        nonempty = max(nonempty, inf.get("nonempty", 0))
        snap = wb.arr.snap_data()
        cb = wb.content_model()
        loss = case["loss"]
        if loss % 2 == 0 and cb.blockmax:
            lev = (loss // 2) % cfga["levels"]
            used = [k for k, sp in enumerate(cb.parities[lev].splits) if sp.size]
            k = used[(loss // 16) % len(used)]
            os.unlink(wb.arr.parity_paths(lev)[k])
            what = "split %d of level %d" % (k, lev)
        else:
            dn = wb.arr.disk_names()[(loss // 2) % len(wb.arr.disk_names())]
            import shutil
            top = wb.arr.disk_dirb(dn)
            for n in os.listdir(top):
                full = os.path.join(top, n)
                if n.startswith(b"content."):
                    continue
                shutil.rmtree(full) if os.path.isdir(full) and not os.path.islink(full) else os.unlink(full)
            what = "disk " + dn
        fx = wb.cmd("fix")
        if fx.rc != 0:
            return Outcome(ok=False, why="split array: fix after losing %s exits %d: %s" % (what, fx.rc, fx.err[-200:].decode("latin-1")))
        for dn in wb.arr.disk_names():
            diffs = treecmp.compare_restored(snap[dn], wb.arr.snap_data()[dn])
            if diffs:
                return Outcome(ok=False, why="split array: after losing %s and fix: %s" % (what, diffs[0]))
        ck = wb.cmd("check")
        if ck.rc != 0:
            return Outcome(ok=False, why="split array: check after repairing %s exits %d" % (what, ck.rc))
        why, sizes, inf = check_twins(wa, wb, None, "after repairing " + what)
        if why:
            return Outcome(ok=False, why=why)
        # configuration: drop unused trailing splits (accepted), drop a used split (refused)
        cb = wb.content_model()
        lev = 0
        sz = [sp.size for sp in cb.parities[lev].splits]
        nused = max([k + 1 for k, v in enumerate(sz) if v] + [1])
        if nused < len(sz):
            wb.arr.cfg["splits"] = [nused] + list(case["splits"][1:])
            wb.arr.write_conf()
            r = wb.cmd("status")
            if r.rc != 0:
                return Outcome(ok=False, why="dropping the unused trailing splits of level 1 from the configuration is refused (rc=%d): %s" % (r.rc, r.err[-200:].decode("latin-1")))
            classes.add("unused trailing splits dropped")
        if nused >= 2:
            wb.arr.cfg["splits"] = [nused - 1] + list(case["splits"][1:])
            wb.arr.write_conf()
            r = wb.cmd("status")
            if r.rc == 0:
                return Outcome(ok=False, why="removing a USED split of level 1 from the configuration is accepted")
            classes.add("used split removal refused")
        fp = hashlib.sha1(json.dumps(case, sort_keys=True).encode()).hexdigest()[:16]
        sample = {"cfg": case["cfg"], "splits": case["splits"], "limit": case["limit"], "max_nonempty_splits": nonempty, "grew_across_boundary": grew,
                  "events": ev_json(wb.events, 25)}
        return Outcome(ok=True, fp=fp, nontrivial=nonempty >= 2 and grew, classes=sorted(classes), sample=sample)
    finally:
        wa.destroy()
        wb.destroy()
