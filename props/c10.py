"""C10: saving and reloading the array state is lossless."""
import hashlib
import json
import os
import random

from hypothesis import strategies as st

import cfparse
import cfwrite
import damage
import gen
from cfparse import BLK, CHG, REP, Content, Map, Parity, Disk, File, Link, Info, Obj
from pbt import Outcome
from prog import decode_step, run_history, cfg_classes, ev_json
from sandbox import default_cfg
from world import World

PID = "C10"
LEVEL = "exploration"
RULE = ("Two generators. (1) reached states: random histories as in C06 (partial / killed syncs leaving CHG, REP and DELETED blocks with "
        "hashes, silent corruption + scrub leaving bad marks, rehash leaving rehash marks, disk holes, links, empty dirs, odd names, all "
        "hash sizes, format 2 and 3); (2) synthesised states: content files encoded by the independent encoder from a generated model "
        "that honours the loader's invariants, with field values at the varint boundaries (positions / run lengths / counts around 2^7, "
        "2^14, 2^21, sizes up to 2^63-1 consistent with block counts, mtime 0 / 2^32 / 2^63, nsec invalid / 0 / 999999999, inode 2^64-1, "
        "names of 1 and 4000 bytes, long runs of deleted blocks and info words). Oracle: test-rewrite output decoded by the independent "
        "parser equals the model saved; for tool-written files the bytes are identical and encode(parse(x)) == x; rewrite is idempotent; "
        "all copies are byte-identical; list (tag log, incl. inode) agrees with the decoded model whichever copy is read. Non-trivial: the "
        "state has a non-BLK block, a deleted run, a flagged info word, or a boundary value; distinct = hash of the case.")
ASSUMPTIONS = [
    "synthesised files respect the invariants the loader enforces (one block per position and disk, ascending positions per file, "
    "info present for synced positions, blockmax = highest file position + 1)",
    "volatile fields (total/free block counts) are compared as stored, since test-rewrite does not refresh them",
]


def variants():
    return ["rel", "oracle"]


def budget(tier):
    return 200 if tier == "quick" else 5000


def decode_case(raw):
    kind, cfgt, init, prog, seed = raw
    if kind % 3 == 2:
        return {"kind": "synth", "seed": seed, "cfgt": list(cfgt)}
    cfg = gen.decode_cfg(cfgt)
    bs, nd = cfg["bs_kib"] * 1024, cfg["ndisks"]
    return {"kind": "history", "cfg": cfg, "init": [gen.decode_fs((0,) + tuple(t[1:]), bs, nd) for t in init],
            "prog": [decode_step(sel, t, bs, nd) for sel, t in prog], "seed": seed}


def strategy(tier):
    return st.tuples(st.integers(0, 2), gen.CFG, st.lists(gen.STEP, min_size=2, max_size=10),
                     st.lists(st.tuples(st.integers(0, 8), gen.STEP), min_size=3, max_size=25), st.integers(0, 1 << 30)).map(decode_case)


def model_dict(c):
    d = c.todict()
    for disk in d["disks"].values():
        disk.pop("closed", None)
    return d


def interesting(c):
    if any(v is not None and (v.bad or v.rehash) for v in c.info):
        return True
    for d in c.disks.values():
        if d.deleted:
            return True
        for f in d.files:
            if any(b[1] != BLK for b in f.blocks):
                return True
    return False


def list_vs_model(w, c, label, extra=()):
    ls = w.cmd("list", list(extra))
    if ls.rc != 0:
        return "%s: list exits %d: %s" % (label, ls.rc, ls.err[-200:].decode("latin-1"))
    got_f, got_l = {}, {}
    for t in ls.tags:
        if t[0] == b"file" and len(t) >= 7:
            got_f[(t[1], t[2])] = (int(t[3]), int(t[4]), int(t[5]), int(t[6]))
        elif t[0] in (b"link_hardlink", b"link_symlink"):
            got_l[(t[1], t[2])] = (t[0][5:].decode(), t[3])
    want_f, want_l = {}, {}
    for name, d in c.disks.items():
        for f in d.files:
            ns = f.mtime_nsec
            want_f[(name, f.sub)] = (f.size, f.mtime_sec if f.mtime_sec < 2**63 else f.mtime_sec - 2**64, ns & 0xFFFFFFFF if ns >= 0 else 0xFFFFFFFF,
                                     f.inode if f.inode < 2**63 else f.inode - 2**64)
        for l in d.links:
            want_l[(name, l.sub)] = (l.kind, l.linkto)
    if got_f != want_f:
        k = sorted(set(got_f.items()) ^ set(want_f.items()))[:2]
        return "%s: list differs from the decoded state in files: %r" % (label, k)
    if got_l != want_l:
        return "%s: list differs from the decoded state in links" % label
    return None


def check_roundtrip(w, label, tool_written=True):
    """content on disk -> test-rewrite -> compare"""
    paths = [p for p in w.arr.content_paths() if os.path.exists(p)]
    if not paths:
        return None, None
    B = open(paths[0], "rb").read()
    try:
        c = cfparse.parse(B)
    except cfparse.ContentError as e:
        return "%s: content file rejected by the independent parser: %s" % (label, e), None
    if tool_written:
        for p in paths[1:]:
            if open(p, "rb").read() != B:
                return "%s: content copies differ (%s)" % (label, p), c
        E = cfwrite.encode(c)
        if E != B:
            n = next((i for i in range(min(len(E), len(B))) if E[i] != B[i]), min(len(E), len(B)))
            return "%s: independent re-encoding of the decoded state differs from the tool's file at byte %d" % (label, n), c
    r = w.cmd("test-rewrite")
    if r.timed_out:
        return None, c
    if r.rc != 0:
        return "%s: test-rewrite exits %d: %s" % (label, r.rc, (r.err[-300:] + r.out[-100:]).decode("latin-1")), c
    B2 = open(paths[0], "rb").read()
    for p in w.arr.content_paths():
        if not os.path.exists(p) or open(p, "rb").read() != B2:
            return "%s: after test-rewrite copy %s differs or is missing" % (label, p), c
    try:
        c2 = cfparse.parse(B2)
    except cfparse.ContentError as e:
        return "%s: rewritten content rejected by the independent parser: %s" % (label, e), c
    if tool_written and B2 != B:
        return "%s: rewriting a tool-written content file changed its bytes" % label, c
    if model_dict(c2) != model_dict(c):
        a, b = model_dict(c), model_dict(c2)
        keys = [k for k in a if a[k] != b.get(k)]
        return "%s: state reloaded and saved differs from the state saved, in %s" % (label, keys), c
    if not tool_written:
        r = w.cmd("test-rewrite")
        B3 = open(paths[0], "rb").read()
        if r.rc != 0 or B3 != B2:
            return "%s: test-rewrite is not idempotent" % label, c
    why = list_vs_model(w, c2, label)
    if why:
        return why, c
    if len(paths) > 1 or len(w.arr.content_paths()) > 1:
        # the same state whichever copy is read: hide the first copy
        first = w.arr.content_paths()[0]
        if os.path.exists(first):
            os.rename(first, first + ".hidden")
            try:
                why = list_vs_model(w, c2, label + " (reading the second copy)")
            finally:
                os.rename(first + ".hidden", first)
            if why:
                return why, c
    return None, c


# ---------------------------------------------------------------------------- synthesised states
BOUND = [0, 1, 127, 128, 129, 16383, 16384, 16385, 2097151, 2097152]


def synth_model(seed, cfgt):
    r = random.Random(seed)
    nd = 1 + cfgt[2] % 4
    levels = 1 + cfgt[0] % 6
    hs = [16, 16, 8, 4, 2][cfgt[4] % 5]
    bs = [1024, 1024, 2048, 4096, 65536][cfgt[3] % 5]
    nsplits = [r.choice([1, 1, 2, 4]) if cfgt[12] % 3 == 0 else 1 for _ in range(levels)]
    version = 3 if hs != 16 or max(nsplits) > 1 else 2   # the rule the tool itself uses to pick the format
    kinds = ["murmur3", "spooky2"]
    hashk = (kinds[cfgt[5] % 2], r.randbytes(16))
    rehash_mode = cfgt[6] % 3 == 0
    prev = (kinds[(cfgt[5] + 1) % 2], r.randbytes(16)) if rehash_mode else None
    maps = [Map(name=b"d%d" % (i + 1), position=i, total_blocks=r.choice(BOUND + [2**32 - 1]), free_blocks=r.choice(BOUND), uuid=r.choice([b"", b"abc-123", b"x" * 100]))
            for i in range(nd)]
    # layout: a set of runs per disk at boundary positions
    disks = {}
    order = []
    used_max = 0
    posinfo = {}
    names_used = {}
    for di in range(nd):
        name = b"d%d" % (di + 1)
        d = Disk(name=name, mapping=di, files=[], links=[], dirs=[], deleted={})
        taken = set()
        nfiles = r.choice([0, 1, 2, 5, 20])
        cursor = r.choice([0, 0, 1, 126, 127, 16382])
        for fi in range(nfiles):
            nblk = r.choice([0, 1, 1, 2, 3, 127, 128, 129, 300])
            size_tail = r.choice([1, bs - 1, bs]) if nblk else 0
            size = (nblk - 1) * bs + size_tail if nblk else 0
            blocks = []
            # fragmented: runs of random length with gaps, states vary per run
            left = nblk
            while left:
                run = min(left, r.choice([1, 1, 2, 127, 128, left]))
                cursor += r.choice([0, 0, 0, 1, 3, 128])
                stt = r.choice([BLK, BLK, BLK, CHG, REP])
                for k in range(run):
                    h = r.randbytes(hs)
                    if stt == CHG and r.random() < 0.3:
                        h = r.choice([b"\xff" * hs, b"\x00" * hs])
                    blocks.append((cursor, stt, h))
                    taken.add(cursor)
                    cursor += 1
                left -= run
            sub = r.choice([b"f%d" % fi, b"a/" * r.choice([1, 5, 40]) + b"f%d" % fi, bytes([r.randrange(1, 256) for _ in range(r.choice([1, 3, 200]))]).replace(b"/", b"_") + b"%d" % fi,
                            b"N" * 4000 + b"%d" % fi])
            if sub in names_used.setdefault(name, set()):
                sub += b"_%d" % fi
            names_used[name].add(sub)
            f = File(sub=sub, size=size, mtime_sec=r.choice([0, 1, 1600000000, 2**31, 2**32, 2**63 - 1, 2**63, 2**64 - 1]),
                     mtime_nsec=r.choice([-1, 0, 1, 999999999]), inode=r.choice([0, 1, 2**32, 2**63, 2**64 - 1]), blocks=blocks)
            d.files.append(f)
            if blocks:
                used_max = max(used_max, blocks[-1][0] + 1)
        for li in range(r.choice([0, 0, 1, 3])):
            d.links.append(Link(kind=r.choice(["symlink", "hardlink"]), sub=b"l%d" % li + r.choice([b"", b"\n:\\", b"\xff"]), linkto=r.choice([b"t", b"../" * 30 + b"x", b"a\nb"])))
        for ri in range(r.choice([0, 0, 1, 2])):
            d.dirs.append(b"dir%d" % ri + r.choice([b"", b"/sub" * 20]))
        if not d.files and not d.links and not d.dirs:
            d.dirs.append(b"onlydir")   # a disk recording nothing at all is dropped from the map when the state is saved
        d._taken = taken
        disks[name] = d
        order.append(name)
    blockmax = used_max
    # positions holding a block of some file: only there the tool keeps deleted blocks and info words
    filepos = set()
    for d in disks.values():
        for f in d.files:
            for (p, stt, h) in f.blocks:
                filepos.add(p)
    fplist = sorted(filepos)
    for name in order:
        d = disks[name]
        if fplist and r.random() < 0.7:
            for _ in range(r.choice([1, 2, 5])):
                start = r.randrange(len(fplist))
                for k in range(r.choice([1, 2, 127, 128, 129])):
                    if start + k < len(fplist):
                        p = fplist[start + k]
                        if p not in d._taken:
                            d.deleted[p] = r.randbytes(hs) if r.random() < 0.8 else b"\x00" * hs
        del d._taken
    # info: required where a BLK block exists; optional at other file positions; absent elsewhere
    info = [None] * blockmax
    # the tool keeps check times with a granularity of 8 s (the low bits of the info word hold the flags), never 0,
    # never in the future
    oldest = r.choice([8, 1000000000, 1500000000])
    need = set()
    for d in disks.values():
        for f in d.files:
            for (p, stt, h) in f.blocks:
                if stt == BLK:
                    need.add(p)
    times = [oldest + 8 * x for x in (0, 1, 15, 16, 127, 128, 2048, 16384, 10800 * 30)]
    i = 0
    while i < len(fplist):
        run = r.choice([1, 1, 2, 127, 128, 129, 16384])
        v = None
        if r.random() < 0.8:
            v = Info(time=r.choice(times), bad=r.random() < 0.2, rehash=rehash_mode and r.random() < 0.5, justsynced=r.random() < 0.3)
        for k in range(run):
            if i + k >= len(fplist):
                break
            p = fplist[i + k]
            if v is None and p in need:
                info[p] = Info(time=times[0], bad=False, rehash=False, justsynced=True)
            else:
                info[p] = v
        i += run
    has_info = [x for x in info if x is not None]
    if rehash_mode and not any(x.rehash for x in has_info):
        prev = None
    if not has_info:
        oldest = 0
    else:
        oldest = min(x.time for x in has_info)
    parities = {}
    for lev in range(levels):
        if version == 3:
            ns = nsplits[lev]
            sizes = [0] * ns
            sizes[0] = blockmax * bs
            parities[lev] = Parity(level=lev, total_blocks=r.choice(BOUND), free_blocks=r.choice(BOUND), kind="Q",
                                   splits=[Obj(path=b"/p/%d.%d" % (lev, s), uuid=r.choice([b"", b"u-1"]), size=sizes[s]) for s in range(ns)])
        else:
            parities[lev] = Parity(level=lev, total_blocks=r.choice(BOUND), free_blocks=r.choice(BOUND), kind="P", splits=[Obj(path=None, uuid=b"", size=None)])
    c = Content(version=version, block_size=bs, blockmax=blockmax, hash_size=hs, hash=hashk, prevhash=prev, maps=maps, parities=parities,
                disks=disks, disk_order=order, info=info, info_oldest=oldest)
    return c, {"ndisks": nd, "levels": levels, "bs_kib": bs // 1024, "hashsize": hs, "nsplits": [len(parities[l].splits) for l in range(levels)]}


def run_synth(case, ctx):
    c, shape = synth_model(case["seed"], case["cfgt"])
    cfg = default_cfg(ndisks=shape["ndisks"], levels=shape["levels"], bs_kib=shape["bs_kib"], hashsize=shape["hashsize"],
                      splits=shape["nsplits"], content=["par", "par"])
    w = World(cfg, ctx.rel)
    try:
        # the split paths recorded are those of the configuration in use
        for lev, par in c.parities.items():
            if par.kind == "Q":
                for s_, sp in enumerate(par.splits):
                    sp.path = os.fsencode(w.arr.parity_paths(lev)[s_])
        B = cfwrite.encode(c)
        try:
            cfparse.parse(B)
        except cfparse.ContentError as e:
            raise RuntimeError("harness: synthesised model violates the format rules: %s" % e)
        for p in w.arr.content_paths():
            with open(p, "wb") as f:
                f.write(B)
        why, cc = check_roundtrip(w, "synthesised state", tool_written=False)
        if why:
            return Outcome(ok=False, why=why, detail={"seed": case["seed"]})
        classes = ["synthesised", "format %d" % c.version, "hash %d" % c.hash_size]
        if c.blockmax > 16384:
            classes.append("blockmax > 2^14")
        if c.prevhash:
            classes.append("rehash marks")
        fp = hashlib.sha1(json.dumps(case, sort_keys=True).encode()).hexdigest()[:16]
        nfiles = sum(len(d.files) for d in c.disks.values())
        sample = {"kind": "synth", "seed": case["seed"], "blockmax": c.blockmax, "files": nfiles, "bytes": len(B), "version": c.version, "hash_size": c.hash_size}
        return Outcome(ok=True, fp=fp, nontrivial=True, classes=classes, sample=sample)
    finally:
        w.destroy()


def run_case(case, ctx):
    if case["kind"] == "synth":
        return run_synth(case, ctx)
    cfg = dict(case["cfg"])
    cfg["rules"] = ["exclude *.unrecoverable"]
    w = World(cfg, ctx.rel)
    classes = set(cfg_classes(case["cfg"]))
    nint = [0]
    try:
        for s in case["init"]:
            w.fs_step(s)
        r = w.cmd("sync")
        if r.rc != 0:
            return Outcome(ok=True, classes=["initial sync refused"])

        def after(i, s, r):
            if s["op"] in ("sync", "scrub", "rehash", "touch"):
                why, c = check_roundtrip(w, "after step %d (%s)" % (i, s["op"]))
                if c is not None and interesting(c):
                    nint[0] += 1
                return why
            return None
        # sprinkle silent corruption so that scrubs leave bad marks
        rnd = random.Random(case["seed"])
        prog = list(case["prog"])
        fail, hs = run_history(w, prog[:len(prog) // 2], after)
        if not fail and not hs["timeout"]:
            c = w.content_model()
            if c and c.blockmax:
                damage.apply_stripes(w, c, case["seed"], 1, density=0.3)
                w.cmd("scrub", ["-p", "full"])
                classes.add("bad marks")
            fail, hs2 = run_history(w, prog[len(prog) // 2:], after)
            hs["classes"] |= hs2["classes"]
            hs["timeout"] = hs2["timeout"]
        if hs["timeout"]:
            return Outcome(ok=True, inconclusive=True)
        if fail:
            return Outcome(ok=False, why=fail)
        why, c = check_roundtrip(w, "final state")
        if why:
            return Outcome(ok=False, why=why)
        if c is not None and interesting(c):
            nint[0] += 1
        fp = hashlib.sha1(json.dumps(case, sort_keys=True).encode()).hexdigest()[:16]
        sample = {"kind": "history", "cfg": case["cfg"], "events": ev_json(w.events, 25), "roundtrips_on_interesting_states": nint[0]}
        return Outcome(ok=True, fp=fp, nontrivial=nint[0] > 0, classes=sorted(classes | hs["classes"] | {"reached state"}), sample=sample)
    finally:
        w.destroy()
