"""C16: arrays written by the reference version stay readable and repairable.
Differential against a vendored corpus produced by the pinned commit (golden/), plus
property-based comparison of the current hash code with the independent oracle."""
import base64
import hashlib
import itertools
import json
import os
import random
import shutil
import subprocess
import time

import cfparse
import hashes
from common import Result, build, mix_seed, save_replay, VERIF, NPROC
from sandbox import Array, default_cfg

PID = "C16"
GOLD = os.path.join(VERIF, "golden")


def materialise(name, binary):
    m = json.load(open(os.path.join(GOLD, "arrays", name, "manifest.json")))
    cfg = default_cfg(**m["cfg"])
    cfg["rules"] = ["exclude *.unrecoverable"]
    arr = Array(cfg, binary)
    root = arr.rootb
    files = {}
    for e in m["entries"]:
        p = os.path.join(root, base64.b64decode(e["p"]))
        if e["t"] == "d":
            os.makedirs(p, exist_ok=True)
    for e in m["entries"]:
        p = os.path.join(root, base64.b64decode(e["p"]))
        os.makedirs(os.path.dirname(p), exist_ok=True)
        if e["t"] == "l":
            if not os.path.lexists(p):
                os.symlink(base64.b64decode(e["to"]), p)
        elif e["t"] == "f":
            data = base64.b64decode(e["data"])
            files[base64.b64decode(e["p"])] = (data, e["mt"], e["ino"])
    # hard links: entries with the same recorded inode number
    byino = {}
    for rel, (data, mt, ino) in files.items():
        byino.setdefault(ino, []).append(rel)
    for ino, rels in byino.items():
        first = os.path.join(root, rels[0])
        with open(first, "wb") as f:
            f.write(files[rels[0]][0])
        os.utime(first, ns=(files[rels[0]][1],) * 2)
        for r in rels[1:]:
            p = os.path.join(root, r)
            if os.path.lexists(p):
                os.unlink(p)
            os.link(first, p)
    arr.write_conf()
    return arr, m, files


def data_ok(arr, files, dn):
    prefix = dn.encode() + b"/"
    for rel, (data, mt, ino) in files.items():
        if not rel.startswith(prefix) or os.path.basename(rel).startswith(b"content"):
            continue
        p = os.path.join(arr.rootb, rel)
        if not os.path.exists(p):
            return "file %s missing after fix" % rel.decode("latin-1")
        if open(p, "rb").read() != data:
            return "file %s differs from the reference bytes after fix" % rel.decode("latin-1")
        if os.lstat(p).st_mtime_ns != mt:
            return "file %s has mtime %d, reference %d" % (rel.decode("latin-1"), os.lstat(p).st_mtime_ns, mt)
    return None


def lose(arr, dev):
    if dev[0] == "d":
        top = arr.disk_dirb(dev)
        for n in os.listdir(top):
            full = os.path.join(top, n)
            shutil.rmtree(full) if os.path.isdir(full) and not os.path.islink(full) else os.unlink(full)
    else:
        for p in arr.parity_paths(int(dev[1:])):
            if os.path.exists(p):
                os.unlink(p)


def check_array(name, binary, losses):
    """returns (why or None, evaluations, samples)"""
    n = 0
    arr, m, files = materialise(name, binary)
    try:
        r = arr.run("status")
        n += 1
        if r.rc != 0:
            return "%s: the current code cannot load the reference content file (status rc=%d): %s" % (name, r.rc, r.err[-200:].decode("latin-1")), n
        try:
            cfparse.parse(arr.read_content())
        except cfparse.ContentError as e:
            raise RuntimeError("harness: reference content of %s rejected by cfparse: %s" % (name, e))
        r = arr.run("check")
        n += 1
        if r.rc != 0:
            errs = [b":".join(t)[:100] for t in r.tags if t[0] in (b"error", b"parity_error")][:3]
            return "%s: check of the untouched reference array fails (rc=%d): %r" % (name, r.rc, errs), n
    finally:
        arr.destroy()
    for devs in losses:
        arr, m, files = materialise(name, binary)
        try:
            for d in devs:
                lose(arr, d)
            fx = arr.run("fix")
            n += 1
            if fx.rc != 0:
                return "%s: fix after losing %s exits %d: %s" % (name, "+".join(devs), fx.rc, fx.err[-200:].decode("latin-1")), n
            for d in devs:
                if d[0] == "d":
                    why = data_ok(arr, files, d)
                    if why:
                        return "%s: after losing %s: %s" % (name, "+".join(devs), why), n
            ck = arr.run("check")
            n += 1
            if ck.rc != 0:
                return "%s: check after repairing %s exits %d" % (name, "+".join(devs), ck.rc), n
        finally:
            arr.destroy()
    return None, n


def vector_diff(kind, binp):
    ref = open(os.path.join(GOLD, kind + ".txt"), "rb").read().splitlines()
    cur = subprocess.run([binp, kind], stdout=subprocess.PIPE, check=True).stdout.splitlines()
    if len(ref) != len(cur):
        return "%s: %d vectors now, %d in the reference" % (kind, len(cur), len(ref)), len(ref)
    for a, b in zip(ref, cur):
        if a != b:
            return "%s: vector differs: reference %r, current %r" % (kind, a[:80], b[:80]), len(ref)
    return None, len(ref)


def hash_pbt(binp, seed, n):
    """random inputs: current code (vectool) vs independent oracle"""
    rnd = random.Random(seed)
    p = subprocess.Popen([binp], stdin=subprocess.PIPE, stdout=subprocess.PIPE)
    cnt = 0
    try:
        for i in range(n):
            ln = rnd.choice([0, 1, 15, 16, 17, 95, 96, 97, 191, 192, 193, 1024, 4096]) if rnd.random() < 0.5 else rnd.randrange(0, 3000)
            data = rnd.randbytes(ln)
            sd = rnd.randbytes(16)
            for kind, kname in ((1, "murmur3"), (2, "spooky2")):
                p.stdin.write(b"H %d %s %s\n" % (kind, sd.hex().encode(), data.hex().encode() or b"-"))
                p.stdin.flush()
                got = p.stdout.readline().strip().decode()
                cnt += 1
                if got != hashes.memhash(kname, sd, data).hex():
                    return "%s of a %d-byte input with seed %s: current code gives %s, the independent implementation %s" % (kname, ln, sd.hex(), got, hashes.memhash(kname, sd, data).hex()), cnt
            p.stdin.write(b"C %s\n" % (data.hex().encode() or b"-"))
            p.stdin.flush()
            a, b = p.stdout.readline().split()
            cnt += 1
            if not (int(a, 16) == int(b, 16) == hashes.crc32c(data)):
                return "crc32c of a %d-byte input: generic %s, accelerated %s, independent %08x" % (ln, a, b, hashes.crc32c(data)), cnt
    finally:
        p.stdin.close()
        p.wait()
    return None, cnt


def main(pid, tier, seed, replay=None):
    paths = build("rel", "vectool", "oracle")
    res = Result(pid, tier, seed, "other")
    res.rule = ("every vendored reference array (golden/arrays, written by the pinned commit) is loaded and checked by the current build and "
                "repaired after device losses; every vendored digest / CRC / parity vector is recomputed; random inputs are hashed by the "
                "current code and by the independent oracle. distinct = (array, loss set) / vector / random input")
    res.explanation = ("Differential against stored reference outputs: 16 arrays covering murmur3/spooky2 x hash sizes 2/4/8/16, levels 1..6, "
                       "z-parity, split layouts, block sizes 1/2/4 KiB, content formats 2 and 3, a hash migration in progress, fragmented "
                       "allocation, links/dirs/odd names; 17624 hash digests (all lengths 0..1100 x 8 seeds x 2 kinds + long inputs), 4404 "
                       "CRC values (generic and accelerated), 162 parity vectors (nd 1,2,3,32,33,251 x all levels x both modes), all produced "
                       "by a build of the pinned commit and never regenerated. Plus property-based comparison of the current hash/CRC code with "
                       "independent implementations on random inputs.")
    res.assumptions = ["the vendored corpus was produced by tools/mkgolden.py with commit e695936 before any repository change",
                       "time-stamps are re-applied from the manifest (git does not keep them); inode numbers are not preserved (not trusted without UUIDs)"]
    names = sorted(os.listdir(os.path.join(GOLD, "arrays")))
    if replay:
        obj = json.load(open(replay))
        why, n = check_array(obj["array"], paths["rel"], [obj["loss"]] if obj.get("loss") else [])
        if why:
            print("VIOLATION property=%s replay=%s\n  %s" % (pid, replay, why))
            return 1
        print("replay passes")
        return 0
    from concurrent.futures import ThreadPoolExecutor
    rnd = random.Random(mix_seed(seed, pid))
    jobs = []
    for name in names:
        m = json.load(open(os.path.join(GOLD, "arrays", name, "manifest.json")))
        cfg = m["cfg"]
        devs = ["d%d" % (i + 1) for i in range(cfg["ndisks"])] + ["p%d" % l for l in range(cfg["levels"])]
        singles = [[d] for d in devs]
        nsets = [list(c) for c in itertools.combinations(devs, cfg["levels"]) if any(x[0] == "d" for x in c)]
        if tier == "quick":
            losses = [rnd.choice([s for s in singles if s[0][0] == "d"])] + ([rnd.choice(nsets)] if nsets else [])
        else:
            losses = singles + rnd.sample(nsets, min(len(nsets), 12))
        jobs.append((name, losses))

    def one(j):
        return j, check_array(j[0], paths["rel"], j[1])
    with ThreadPoolExecutor(NPROC) as ex:
        results = list(ex.map(one, jobs))
    for (name, losses), (why, n) in results:
        res.evaluations += n
        res.nontrivial += n
        for l in losses:
            res.fingerprints.add("%s:%s" % (name, "+".join(l)))
        res.fingerprints.add(name + ":load+check")
        res.classes["array " + name] = n
        if why:
            loss = None
            for l in losses:
                if "+".join(l) in why:
                    loss = l
            path = save_replay(pid, {"property": pid, "array": name, "loss": loss, "why": why})
            res.violations.append((path, why))
        if len(res.samples) < 4:
            res.samples.append({"array": name, "losses": losses[:3], "commands": n})
    for kind in ("hashvec", "crcvec", "parvec"):
        why, n = vector_diff(kind, paths["vectool"])
        res.evaluations += n
        res.nontrivial += n
        res.fingerprints.update("%s:%d" % (kind, i) for i in range(n))
        res.classes["vectors " + kind] = n
        if why:
            path = save_replay(pid, {"property": pid, "array": names[0], "loss": None, "why": why})
            res.violations.append((path, why))
    why, n = hash_pbt(paths["vectool"], mix_seed(seed, pid, "pbt"), 3000 if tier == "quick" else 60000)
    res.evaluations += n
    res.nontrivial += n
    res.fingerprints.update("pbt:%d:%d" % (seed, i) for i in range(n))
    res.classes["random inputs vs independent hash/crc"] = n
    if why:
        path = save_replay(pid, {"property": pid, "array": names[0], "loss": None, "why": why})
        res.violations.append((path, why))
    res.samples.append({"vectors": {"hash": 17624, "crc": 4404, "parity": 162}})
    return res.finish()
