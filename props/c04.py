"""C04: every silent corruption of synced data or parity is detected and located."""
import hashlib
import json
import os
import random

from hypothesis import strategies as st

import cfparse
import damage
import gen
import hashes
from pbt import Outcome
from prog import decode_step, run_history, cfg_classes, ev_json
from world import World

PID = "C04"
LEVEL = "exploration"
RULE = ("Hypothesis cases {config, history, corruption set, command}: configurations incl. reduced hash sizes, both hash kinds and a hash "
        "migration in progress (rehash + partial scrub); a history closed by a successful sync; then a set of corruptions chosen on the "
        "independently parsed block map: data blocks (first / middle / last partial block) and parity blocks of any level covering >= 1 "
        "file; shapes one bit / one byte / whole block / zeroing / swap of two blocks; size and mtime preserved; then check -a, check, or "
        "scrub -p full|new|100 -o 0|bad. Oracle: exactly the damaged data blocks get `error:<pos>:<disk>:<file>: Data error at position "
        "<n>`; exactly the damaged parity blocks of stripes the command can judge get `parity_error:<pos>:<level>: Data error`; no other "
        "block is named; exit != 0; after scrub the bad marks in the content file (independent parse) and in status are exactly the "
        "covered damaged stripes (plus earlier ones) and a following scrub -p bad reports them again. With no damage: exit 0, no error, "
        "no bad mark. Non-trivial: >= 1 damaged block covered by the command; distinct = hash of the case.")
ASSUMPTIONS = [
    "a damaged block whose truncated recorded hash equals the hash of the damaged bytes (2^-16 / 2^-32 for 2/4-byte hashes) is a "
    "legitimate miss: the oracle recomputes the hash and exempts it",
    "scrub judges the parity of a stripe only when all its data blocks are correct (documented behaviour); full check judges it when the "
    "stripe has at most N damaged blocks; with 2/4-byte hashes parity corruption is generated only in stripes without data corruption",
]


def variants():
    return ["rel", "oracle"]


def budget(tier):
    return 400 if tier == "quick" else 8000


COMMANDS = [("check", ["-a"]), ("check", []), ("scrub", ["-p", "full"]), ("scrub", ["-p", "new"]), ("scrub", ["-p", "100", "-o", "0"]), ("scrub", ["-p", "full"])]


def decode_case(raw):
    cfgt, init, prog, mig, dseed, density, cmdi, nodamage = raw
    cfg = gen.decode_cfg(cfgt)
    bs, nd = cfg["bs_kib"] * 1024, cfg["ndisks"]
    init_steps = [gen.decode_fs((0,) + tuple(t[1:]), bs, nd) for t in init]
    steps = [decode_step(min(sel, 6), t, bs, nd) for sel, t in prog]
    return {"cfg": cfg, "init": init_steps, "prog": steps, "migration": mig % 4 == 0, "seed": dseed, "density": [0.15, 0.4, 0.8][density % 3],
            "command": cmdi % len(COMMANDS), "nodamage": nodamage % 8 == 0}


def strategy(tier):
    return st.tuples(gen.CFG, st.lists(gen.STEP, min_size=3, max_size=12),
                     st.lists(st.tuples(st.integers(0, 6), gen.STEP), min_size=0, max_size=15),
                     st.integers(0, 7), st.integers(0, 1 << 20), st.integers(0, 2), st.sampled_from(range(len(COMMANDS))), st.integers(0, 15)).map(decode_case)


def choose_damage(w, c, seed, density, levels, small_hash, parity_allowed):
    """pick victims per stripe (<= levels per stripe); returns (data victims [(pos, dn, file, idx)], parity victims [(pos, lev)])"""
    rnd = random.Random(seed)
    tab = cfparse.position_table(c)
    dv, pv = [], []
    for pos, row in sorted(tab.items()):
        if rnd.random() > density:
            continue
        blocks = [(name, v) for name, v in row.items() if v[0] == cfparse.BLK and v[2] is not None]
        if not blocks:
            continue
        cands = [("d", name, v) for name, v in blocks]
        if parity_allowed:
            cands += [("p", l, None) for l in range(levels)]
        k = min(len(cands), rnd.choice([1, 1, 2, levels]))
        k = min(k, levels)
        chosen = rnd.sample(cands, k)
        if small_hash and any(x[0] == "d" for x in chosen):
            chosen = [x for x in chosen if x[0] == "d"]
        for kind, x, v in chosen:
            if kind == "d":
                dv.append((pos, x.decode(), v[2], v[3]))
            else:
                pv.append((pos, x))
    return dv, pv


def run_case(case, ctx):
    cfg = dict(case["cfg"])
    cfg["rules"] = ["exclude *.unrecoverable"]
    w = World(cfg, ctx.rel)
    classes = set(cfg_classes(case["cfg"]))
    try:
        for s in case["init"]:
            w.fs_step(s)
        fail, hs = run_history(w, case["prog"])
        if hs["timeout"]:
            return Outcome(ok=True, inconclusive=True)
        if fail:
            return Outcome(ok=False, why=fail)
        r = w.cmd("sync", ["-E", "-Z"])
        if r.rc != 0:
            return Outcome(ok=True, classes=["closing sync refused"])
        if case["migration"]:
            c = w.content_model()
            w.arr.cfg["hash"] = "murmur3" if c.hash[0] == "spooky2" else "spooky2"
            r = w.cmd("rehash")
            r = w.cmd("scrub", ["-p", "50", "-o", "0"])
            classes.add("hash migration in progress")
        c = w.content_model()
        if cfparse.has_unsynced(c):
            return Outcome(ok=False, why="sync exited 0 but blocks are still unsynced")
        if c.blockmax == 0:
            return Outcome(ok=True, classes=["array without blocks"])
        cmd, args = COMMANDS[case["command"]]
        levels = cfg["levels"]
        small = cfg["hashsize"] < 8
        bs = c.block_size
        dv, pv = ([], []) if case["nodamage"] else choose_damage(w, c, case["seed"], case["density"], levels, small, parity_allowed=True)
        rnd = random.Random(case["seed"] + 1)
        done_d, done_p = [], []
        hit_files = set()

        def took(pos, dn, f, idx, shape):
            """book a corrupted data block, unless its truncated hash still matches (legitimate miss)"""
            data = w.read_file(dn, f.sub)[idx * bs:(idx + 1) * bs]
            info = c.info[pos]
            kind, seed = c.prevhash if (info and info.rehash) else c.hash
            hit_files.add((dn, f.sub, idx))
            if hashes.memhash(kind, seed, data)[:c.hash_size] == f.blocks[idx][2]:
                classes.add("hash collision (legitimate miss)")
                return
            done_d.append((pos, dn, f.sub, idx))
            classes.add("data shape " + shape)
            nblk = len(f.blocks)
            classes.add("last partial block" if idx == nblk - 1 and f.size % bs else ("first block" if idx == 0 else "middle block"))

        usable = [v for v in dv if os.path.exists(w.full(v[1], v[2].sub)) and os.lstat(w.full(v[1], v[2].sub)).st_nlink == 1]
        k = 0
        while k < len(usable):
            pos, dn, f, idx = usable[k]
            if (dn, f.sub, idx) in hit_files:
                k += 1
                continue
            # swap of two blocks: two chosen victims exchange their bytes (both stripes were chosen for damage anyway)
            if k + 1 < len(usable) and rnd.random() < 0.3:
                pos2, dn2, f2, idx2 = usable[k + 1]
                if (dn2, f2.sub, idx2) not in hit_files and (dn2, f2.sub, idx2) != (dn, f.sub, idx) and \
                        damage.swap_file_blocks(w, (dn, f.sub, idx), (dn2, f2.sub, idx2), bs):
                    took(pos, dn, f, idx, "swap")
                    took(pos2, dn2, f2, idx2, "swap")
                    k += 2
                    continue
            shape = rnd.choice(["bit", "byte", "block", "zero"])
            if damage.corrupt_file_block(w, dn, f.sub, idx, bs, rnd, shape=shape):
                took(pos, dn, f, idx, shape)
            k += 1
        k = 0
        while k < len(pv):
            pos, lev = pv[k]
            if k + 1 < len(pv) and pv[k + 1][1] == lev and rnd.random() < 0.3 and damage.swap_parity_blocks(w.arr, c, lev, pos, pv[k + 1][0]):
                done_p.append((pos, lev))
                done_p.append((pv[k + 1][0], lev))
                classes.add("parity level %d" % (lev + 1))
                classes.add("parity shape swap")
                k += 2
                continue
            shape = rnd.choice(["bit", "block", "zero"])
            if damage.corrupt_parity_block(w.arr, c, lev, pos, rnd, shape=shape):
                done_p.append((pos, lev))
                classes.add("parity level %d" % (lev + 1))
            k += 1
        pre_content = w.arr.read_content()
        run = w.cmd(cmd, args)
        if run.timed_out:
            return Outcome(ok=True, inconclusive=True)
        classes.add("command " + cmd + " " + " ".join(args))
        # coverage of the plan
        if cmd == "scrub" and args[1] == "new":
            covered = set(p for p in range(c.blockmax) if c.info[p] is not None and c.info[p].justsynced)
        else:
            covered = set(range(c.blockmax))
        prev_bad = set(p for p in range(c.blockmax) if c.info[p] is not None and c.info[p].bad)
        if cmd == "scrub":
            covered |= prev_bad
        exp_data = set((pos, dn, sub, idx) for (pos, dn, sub, idx) in done_d if pos in covered)
        data_stripes = set(x[0] for x in done_d)
        per_stripe = {}
        for x in done_d:
            per_stripe[x[0]] = per_stripe.get(x[0], 0) + 1
        for x in done_p:
            per_stripe[x[0]] = per_stripe.get(x[0], 0) + 1
        if cmd == "check" and "-a" in args:
            exp_par = set()
        elif cmd == "check":
            exp_par = set((pos, lev) for (pos, lev) in done_p if per_stripe[pos] <= levels)
        else:
            exp_par = set((pos, lev) for (pos, lev) in done_p if pos in covered and pos not in data_stripes)
        got_data, got_par = set(), set()
        for t in run.tags:
            if t[0] == b"error" and len(t) >= 5 and b"Data error at position" in t[4]:
                fp = int(t[4].split(b"position")[1].split(b",")[0])
                got_data.add((int(t[1]), t[2].decode(), t[3], fp))
            elif t[0] == b"error":
                return Outcome(ok=False, why="%s reports an error that is not a data error: %r" % (cmd, b":".join(t)[:200]))
            elif t[0] == b"parity_error" and len(t) >= 4:
                if t[3] == b"hash":
                    continue  # diagnostic of a discarded recovery attempt, not a verdict on the parity block
                if b"Data error" not in t[3]:
                    return Outcome(ok=False, why="%s reports a parity error that is not a data error: %r" % (cmd, b":".join(t)[:200]))
                lev = ["parity", "2-parity", "3-parity", "4-parity", "5-parity", "6-parity", "z-parity"].index(t[2].decode())
                got_par.add((int(t[1]), 2 if lev == 6 else lev))
        if got_data != exp_data:
            miss, extra = sorted(exp_data - got_data)[:2], sorted(got_data - exp_data)[:2]
            return Outcome(ok=False, why="%s %s: data errors not reported %r, reported without damage %r" % (cmd, " ".join(args), miss, extra))
        if got_par != exp_par:
            miss, extra = sorted(exp_par - got_par)[:2], sorted(got_par - exp_par)[:2]
            return Outcome(ok=False, why="%s %s: parity errors not reported %r, reported without damage %r" % (cmd, " ".join(args), miss, extra))
        any_exp = bool(exp_data or exp_par)
        if any_exp and run.rc == 0:
            return Outcome(ok=False, why="%s found errors but exits 0" % cmd)
        if not any_exp and not done_d and not done_p and run.rc != 0:
            return Outcome(ok=False, why="%s exits %d on an array without damage: %s" % (cmd, run.rc, run.err[-200:].decode("latin-1")))
        nbad = 0
        if cmd == "scrub":
            c2 = w.content_model()
            bad_now = set(p for p in range(c2.blockmax) if c2.info[p] is not None and c2.info[p].bad)
            exp_bad = prev_bad | set(x[0] for x in exp_data) | set(x[0] for x in exp_par)
            # a stripe with data damage is bad whatever its parity
            if bad_now != exp_bad:
                return Outcome(ok=False, why="scrub %s: stripes marked bad %r, expected %r" % (" ".join(args), sorted(bad_now ^ exp_bad)[:4], sorted(exp_bad)[:4]))
            nbad = len(bad_now)
            stt = w.cmd("status")
            hb = stt.summary("has_bad")
            if hb is None or int(hb[0]) != len(bad_now) or (bad_now and (int(hb[1]) != min(bad_now) or int(hb[2]) != max(bad_now))):
                return Outcome(ok=False, why="status has_bad %r but the content file marks %d stripes bad" % (hb, len(bad_now)))
            if bad_now:
                again = w.cmd("scrub", ["-p", "bad"])
                g2 = set()
                for t in again.tags:
                    if t[0] == b"error" and len(t) >= 5 and b"Data error at position" in t[4]:
                        g2.add(int(t[1]))
                    elif t[0] == b"parity_error":
                        g2.add(int(t[1]))
                if g2 != bad_now or again.rc == 0:
                    return Outcome(ok=False, why="scrub -p bad re-reports stripes %r, bad stripes are %r (rc=%d)" % (sorted(g2)[:4], sorted(bad_now)[:4], again.rc))
                # the damage is still there: the second scrub and a following check must name the same blocks again, and nothing else
                # (stripes that were bad before this case's damage may hold older, unknown damage: left out)
                for label, run2, wantp in (("scrub -p bad after the scrub", again, set(x for x in exp_par if x[0] in bad_now)),
                                           ("check after the scrub", w.cmd("check"), set((pos, lev) for (pos, lev) in done_p if per_stripe[pos] <= levels))):
                    if run2.timed_out:
                        return Outcome(ok=True, inconclusive=True)
                    gd, gp = set(), set()
                    for t in run2.tags:
                        if t[0] == b"error" and len(t) >= 5 and b"Data error at position" in t[4]:
                            gd.add((int(t[1]), t[2].decode(), t[3], int(t[4].split(b"position")[1].split(b",")[0])))
                        elif t[0] == b"parity_error" and len(t) >= 4 and t[3] != b"hash" and b"Data error" in t[3]:
                            lev = ["parity", "2-parity", "3-parity", "4-parity", "5-parity", "6-parity", "z-parity"].index(t[2].decode())
                            gp.add((int(t[1]), 2 if lev == 6 else lev))
                    wantd = set(x for x in done_d if label.startswith("check") or x[0] in bad_now)
                    gd = set(x for x in gd if x[0] not in prev_bad)
                    gp = set(x for x in gp if x[0] not in prev_bad)
                    wantd = set(x for x in wantd if x[0] not in prev_bad)
                    wantp = set(x for x in wantp if x[0] not in prev_bad)
                    if gd != wantd:
                        return Outcome(ok=False, why="%s: data errors not reported %r, reported without damage %r" % (label, sorted(wantd - gd)[:2], sorted(gd - wantd)[:2]))
                    if gp != wantp:
                        return Outcome(ok=False, why="%s: parity errors not reported %r, reported without damage %r" % (label, sorted(wantp - gp)[:2], sorted(gp - wantp)[:2]))
        else:
            if w.arr.read_content() != pre_content:
                return Outcome(ok=False, why="%s modified the content file" % cmd)
        fp = hashlib.sha1(json.dumps(case, sort_keys=True).encode()).hexdigest()[:16]
        sample = {"cfg": case["cfg"], "command": [cmd] + args, "data_blocks_damaged": [[a, b_, c_.decode("latin-1"), d] for a, b_, c_, d in done_d[:6]],
                  "parity_blocks_damaged": [list(x) for x in done_p[:6]], "bad_marks": nbad}
        return Outcome(ok=True, fp=fp, nontrivial=any_exp, classes=sorted(classes), sample=sample)
    finally:
        w.destroy()
