"""C06: stripes recorded as synced always have valid parity -- after EVERY command of random
histories.  Oracle: independent content parser + independent hashes + independent GF(2^8)
parity over the bytes the harness itself wrote (lib/parityoracle.py)."""
import hashlib
import json

from hypothesis import strategies as st

import gen
from pbt import Outcome
from world import World

PID = "C06"
LEVEL = "exploration"
RULE = ("Hypothesis-generated cases {config, program}: config over 1..6 parity levels / z-parity, 1..5 disks, block 1/2/4 KiB, hash size "
        "16/8/4/2, forced hash kind, split parity with unaligned limits, 1..4 content copies in parity dirs or on data disks, scan order, "
        "io cache, fake UUIDs; program of 8..45 steps mixing file-system changes (create/append/truncate/rewrite/touch/delete/rename/"
        "move/copy/mkdir/rmdir/links/kind changes, odd names) with sync (plain, -B, -S/-B, -F, -R, -h, -N, kill-after-sync), scrub "
        "plans, fix (full, -d parity, filtered), rehash, touch, check. After every command the on-disk content copy is decoded by the "
        "independent parser and every stripe whose allocated blocks are all BLK is re-computed. A case is non-trivial when it has "
        ">=2 syncs with a delete/move/truncate between them and >=1 stripe was checked against parity; distinct = hash of "
        "(config, program).")
ASSUMPTIONS = [
    "the bytes of a recorded file version are those the harness wrote for that (disk, path, size, mtime)",
    "a stripe containing a CHG/REP/DELETED block is not 'recorded as synced' (snapraid's own reading)",
    "histories use the harness flags --test-skip-device --test-skip-self --no-warnings",
]


def variants():
    return ["rel", "oracle"]


def budget(tier):
    return 250 if tier == "quick" else 6000


CMDS = ([{"op": "sync"}] * 0 + [{"op": "scrub", "plan": p} for p in ("full", "new", "bad", "50", "100", "0")] + [{"op": "scrub"}] +
        [{"op": "fix", "mode": m} for m in ("all", "parity", "missing", "errors", "filter")] +
        [{"op": "check"}, {"op": "check", "a": True}, {"op": "rehash"}, {"op": "touch"}, {"op": "status"}, {"op": "diff"}, {"op": "rewrite_content"}])


def decode_step(sel, t, bs, nd):
    if sel <= 4:
        return gen.decode_fs(t, bs, nd)
    if sel <= 6:
        return gen.decode_sync(t)
    if sel == 7:
        return dict(CMDS[t[1] % len(CMDS)])
    return {"op": "lose_files", "disk": t[1] % nd, "n": 1 + t[2] % 3, "fi": t[3]}


def decode_case(raw):
    cfgt, init, prog = raw
    cfg = gen.decode_cfg(cfgt)
    bs, nd = cfg["bs_kib"] * 1024, cfg["ndisks"]
    init_steps = []
    for t in init:
        s = gen.decode_fs((0,) + tuple(t[1:]), bs, nd)
        init_steps.append(s)
    return {"cfg": cfg, "init": init_steps, "prog": [decode_step(sel, t, bs, nd) for sel, t in prog]}


def strategy(tier):
    return st.tuples(gen.CFG, st.lists(gen.STEP, min_size=3, max_size=12),
                     st.lists(st.tuples(st.integers(0, 8), gen.STEP), min_size=8, max_size=45)).map(decode_case)


def run_command(w, s):
    """execute one command step; returns Run"""
    op = s["op"]
    if op == "sync":
        a = []
        if "S" in s:
            a += ["-S", str(s["S"])]
        if "B" in s:
            a += ["-B", str(s["B"])]
        for f in ("F", "R", "h", "N"):
            if s.get(f):
                a.append("-" + f)
        a += ["-E"] if s.get("E", True) else []
        a += ["-Z"] if s.get("Z", True) else []
        if s.get("kill_after"):
            a.append("--test-kill-after-sync")
        return w.cmd("sync", a)
    if op == "scrub":
        a = ["-p", s["plan"]] if "plan" in s else []
        return w.cmd("scrub", a)
    if op == "fix":
        m = s.get("mode", "all")
        a = {"all": [], "parity": ["-d", "parity"], "missing": ["-m"], "errors": ["-e"], "filter": ["-f", "a"]}[m]
        return w.cmd("fix", a)
    if op == "check":
        return w.cmd("check", ["-a"] if s.get("a") else [])
    if op == "rehash":
        cur = w.arr.cfg.get("hash")
        try:
            c = w.content_model()
        except Exception:
            c = None
        kind = c.hash[0] if c else (cur or "spooky2")
        w.arr.cfg["hash"] = "murmur3" if kind == "spooky2" else "spooky2"
        return w.cmd("rehash")
    if op == "rewrite_content":
        return w.cmd("test-rewrite")
    return w.cmd(op)


def run_case(case, ctx):
    cfg = dict(case["cfg"])
    cfg["rules"] = ["exclude *.unrecoverable"]
    w = World(cfg, ctx.rel)
    classes = set()
    n_sync = 0
    change_between = False
    stripes_checked = 0
    pending_change = False
    ncmd = 0
    try:
        for s in case["init"]:
            w.fs_step(s)
        r = w.cmd("sync")
        if r.rc != 0:
            return Outcome(ok=True, fp=None, nontrivial=False, classes=["initial sync refused"], inconclusive=False)
        probs, stats = w.oracle()
        if probs:
            return Outcome(ok=False, why="after initial sync: " + probs[0], detail=probs[:5])
        n_sync = 1
        for i, s in enumerate(case["prog"]):
            op = s["op"]
            if op in ("sync", "scrub", "fix", "check", "rehash", "touch", "status", "diff", "rewrite_content"):
                if op == "touch":
                    # touch sets sub-second time-stamps of the files on disk: register the new identities afterwards
                    before = w.arr.snap_data()
                r = run_command(w, s)
                ncmd += 1
                if r.timed_out:
                    return Outcome(ok=True, inconclusive=True, why="timeout")
                if r.rc < 0:
                    return Outcome(ok=False, why="step %d: %s died with signal %d: %s" % (i, op, -r.rc, r.err[-300:].decode("latin-1")))
                if op == "touch":
                    after = w.arr.snap_data()
                    for dn, tree in after.items():
                        for rel, e in tree.items():
                            if e[0] == "f" and before[dn].get(rel, (None,))[0] == "f" and before[dn][rel][3] != e[3] and before[dn][rel][1] == e[1]:
                                w.store.put(dn, rel, e[1], e[3])
                if op == "sync":
                    if r.rc == 0 and not s.get("kill_after") and "B" not in s:
                        n_sync += 1
                        if pending_change:
                            change_between = True
                        pending_change = False
                    for k in ("B", "S", "F", "R", "h", "N", "kill_after"):
                        if k in s:
                            classes.add("sync -" + k if len(k) == 1 else "sync " + k)
                else:
                    classes.add(op)
                probs, stats = w.oracle()
                stripes_checked += stats["stripes_checked"]
                if probs:
                    return Outcome(ok=False, why="after step %d (%s rc=%d): %s" % (i, json.dumps(s), r.rc, probs[0]), detail=probs[:5])
            elif op == "lose_files":
                # a loss the user may suffer at any time; not harness damage to parity-covered blocks' records:
                d = w.ndisk(s["disk"])
                for k in range(s["n"]):
                    rel = w.pick(d, s["fi"] + k)
                    if rel is not None:
                        import os
                        os.unlink(w.full(d, rel))
                classes.add("files lost")
                pending_change = True
            else:
                ev = w.fs_step(s)
                if ev and ev[0] in ("delete", "move", "truncate", "rename", "file_to_dir", "file_to_link"):
                    pending_change = True
        c = case["cfg"]
        if c.get("splits"):
            classes.add("split parity")
        if c["hashsize"] != 16:
            classes.add("reduced hash")
        if c.get("zparity"):
            classes.add("z-parity")
        classes.add("levels=%d" % c["levels"])
        nontrivial = n_sync >= 2 and change_between and stripes_checked > 0
        fp = hashlib.sha1(json.dumps(case, sort_keys=True).encode()).hexdigest()[:16]
        sample = {"cfg": case["cfg"], "events": [list(map(lambda x: x.decode("latin-1") if isinstance(x, bytes) else x, e)) for e in w.events[:40]],
                  "stripe_checks": stripes_checked, "commands": ncmd}
        return Outcome(ok=True, fp=fp, nontrivial=nontrivial, classes=sorted(classes), sample=sample)
    finally:
        w.destroy()
