"""C06: stripes recorded as synced always have valid parity -- after EVERY command of random
histories.  Oracle: independent content parser + independent hashes + independent GF(2^8)
parity over the bytes the harness itself wrote (lib/parityoracle.py)."""
import hashlib
import json

from hypothesis import strategies as st

import gen
from pbt import Outcome
from world import World

PID = "C06"
LEVEL = "exploration"
RULE = ("Hypothesis-generated cases {config, program}: config over 1..6 parity levels / z-parity, 1..5 disks, block 1/2/4 KiB, hash size "
        "16/8/4/2, forced hash kind, split parity with unaligned limits, 1..4 content copies in parity dirs or on data disks, scan order, "
        "io cache, fake UUIDs; program of 8..45 steps mixing file-system changes (create/append/truncate/rewrite/touch/delete/rename/"
        "move/copy/mkdir/rmdir/links/kind changes, odd names) with sync (plain, -B, -S/-B, -F, -R, -h, -N, kill-after-sync), scrub "
        "plans, fix (full, -d parity, filtered), rehash, touch, check. After every command the on-disk content copy is decoded by the "
        "independent parser and every stripe whose allocated blocks are all BLK is re-computed. A case is non-trivial when it has "
        ">=2 syncs with a delete/move/truncate between them and >=1 stripe was checked against parity; distinct = hash of "
        "(config, program).")
ASSUMPTIONS = [
    "the bytes of a recorded file version are those the harness wrote for that (disk, path, size, mtime)",
    "a stripe containing a CHG/REP/DELETED block is not 'recorded as synced' (snapraid's own reading)",
    "histories use the harness flags --test-skip-device --test-skip-self --no-warnings",
]


def variants():
    return ["rel", "oracle"]


def budget(tier):
    return 400 if tier == "quick" else 6000


from prog import decode_step, run_command, run_history, cfg_classes, ev_json


def decode_case(raw):
    cfgt, init, prog = raw
    cfg = gen.decode_cfg(cfgt)
    bs, nd = cfg["bs_kib"] * 1024, cfg["ndisks"]
    init_steps = []
    for t in init:
        s = gen.decode_fs((0,) + tuple(t[1:]), bs, nd)
        init_steps.append(s)
    return {"cfg": cfg, "init": init_steps, "prog": [decode_step(sel, t, bs, nd) for sel, t in prog]}


def strategy(tier):
    return st.tuples(gen.CFG, st.lists(gen.STEP, min_size=3, max_size=12),
                     st.lists(st.tuples(st.integers(0, 8), gen.STEP), min_size=8, max_size=45)).map(decode_case)


def run_case(case, ctx):
    cfg = dict(case["cfg"])
    cfg["rules"] = ["exclude *.unrecoverable"]
    w = World(cfg, ctx.rel)
    tot = {"stripes": 0}
    try:
        for s in case["init"]:
            w.fs_step(s)
        r = w.cmd("sync")
        if r.rc != 0:
            return Outcome(ok=True, classes=["initial sync refused"])
        probs, stats = w.oracle()
        if probs:
            return Outcome(ok=False, why="after initial sync: " + probs[0], detail=probs[:5])

        def after(i, s, r):
            probs, stats = w.oracle()
            tot["stripes"] += stats["stripes_checked"]
            if probs:
                return "after step %d (%s rc=%d): %s" % (i, json.dumps(s), r.rc, probs[0])
            return None
        fail, hs = run_history(w, case["prog"], after)
        if hs["timeout"]:
            return Outcome(ok=True, inconclusive=True, why="timeout")
        if fail:
            return Outcome(ok=False, why=fail)
        classes = set(hs["classes"]) | set(cfg_classes(case["cfg"]))
        nontrivial = hs["syncs_ok"] >= 1 and hs["change_between_syncs"] and tot["stripes"] > 0
        fp = hashlib.sha1(json.dumps(case, sort_keys=True).encode()).hexdigest()[:16]
        sample = {"cfg": case["cfg"], "events": ev_json(w.events), "stripe_checks": tot["stripes"], "commands": hs["commands"]}
        return Outcome(ok=True, fp=fp, nontrivial=nontrivial, classes=sorted(classes), sample=sample)
    finally:
        w.destroy()
