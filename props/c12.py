"""C12: commands modify only what they are documented to modify."""
import hashlib
import json
import os
import re

from hypothesis import strategies as st

import cfparse
import damage
import gen
from pbt import Outcome
from prog import decode_step, run_history, cfg_classes, ev_json
from world import World

PID = "C12"
LEVEL = "exploration"
RULE = ("Hypothesis cases {config, history, array condition, command+options}: a random history (as in C06) brings the array to a "
        "condition -- healthy, unsynced (pending changes / partial sync), damaged (silent corruption, truncated/grown files, garbled or "
        "missing parity), partially lost (disk emptied), content copy missing; then ONE command with generated options: status, diff, "
        "list, dup, devices, check (-a/-f/-d/-m/-e), scrub (plans), sync (-F/-R/-h/-N/-B/-S, kill-after), fix (-f/-d/-m/-e), pool, touch. "
        "Byte-exact snapshots (bytes, mtime, type, link target) of the whole scratch root before and after are compared with the "
        "per-command allow-list. Non-trivial: the command ran on an array with >= 1 recorded block; distinct = hash of the case.")
ASSUMPTIONS = [
    "allowed artefacts of every command: its -l log file and <first content file>.lock",
    "fix may create or resize parity files; the bytes of parity blocks present before and after may change only at positions "
    "reported parity_fixed; paths changed on data disks must be named in fixed:/status:/collision: lines or be ancestors of such paths, "
    "or <name>.unrecoverable of a file reported unrecoverable",
]


def variants():
    return ["rel", "oracle"]


def budget(tier):
    return 500 if tier == "quick" else 8000


READONLY = [("status", []), ("status", ["-v"]), ("diff", []), ("list", []), ("list", ["-v"]), ("dup", []), ("devices", []),
            ("check", ["-a"]), ("check", []), ("check", ["-f", "a"]), ("check", ["-d", "d1"]), ("check", ["-m"]), ("check", ["-e"]),
            ("check", ["-a", "-f", "dir1/"]), ("check", ["-d", "parity"]), ("check", ["-m", "-a"])]
SCRUB = [("scrub", []), ("scrub", ["-p", "full"]), ("scrub", ["-p", "new"]), ("scrub", ["-p", "bad"]), ("scrub", ["-p", "30", "-o", "0"])]
SYNC = [("sync", []), ("sync", ["-F"]), ("sync", ["-R"]), ("sync", ["-h"]), ("sync", ["-N"]), ("sync", ["-B", "2"]), ("sync", ["-S", "1", "-B", "3"]),
        ("sync", ["--test-kill-after-sync"]), ("sync", ["-E"]), ("sync", ["-Z"]), ("sync", ["-E", "-Z"])]
FIX = [("fix", []), ("fix", ["-m"]), ("fix", ["-e"]), ("fix", ["-f", "a"]), ("fix", ["-d", "d1"]), ("fix", ["-d", "parity"]), ("fix", ["-f", "dir1/", "-m"]),
       ("fix", ["-d", "d2", "-e"])]
OTHER = [("pool", []), ("touch", [])]
ALLCMDS = FIX + SYNC + OTHER + SCRUB + READONLY + OTHER

CONDITIONS = ["mixed", "pending", "silent", "files_damaged", "parity_damaged", "disk_lost", "content_missing", "healthy"]


def decode_case(raw):
    cfgt, init, prog, cond, dints, dseed, cmdi = raw
    cfg = gen.decode_cfg(cfgt)
    cfg["pool"] = True
    bs, nd = cfg["bs_kib"] * 1024, cfg["ndisks"]
    case = {"cfg": cfg, "init": [gen.decode_fs((0,) + tuple(t[1:]), bs, nd) for t in init],
            "prog": [decode_step(sel, t, bs, nd) for sel, t in prog], "condition": CONDITIONS[cond % len(CONDITIONS)],
            "victims": damage.decode_devices(dints, cfg, 2, allow_silent=True), "seed": dseed, "command": cmdi % len(ALLCMDS),
            "pending": [gen.decode_fs(t, bs, nd) for _, t in prog[:3]]}
    if ALLCMDS[case["command"]][0] == "fix" and (dseed >> 3) % 3 == 0:
        # a recorded (preferably empty) file whose name now is a symbolic link, dangling or to another file of the disk
        ld = (dseed >> 9) % nd
        case["init"] = case["init"] + [{"op": "create", "disk": ld, "name": gen.name_of(dseed >> 5), "size": 0, "cseed": 0, "kind": 0}]
        case["prog"] = case["prog"] + [{"op": "sync"}]
        case["condition"] = "pending"
        case["pending"] = case["pending"] + [{"op": "file_to_link", "disk": ld, "fi": (dseed >> 11) % 8, "prefer_empty": True,
                                             "target_fi": (dseed >> 14) % 8 if dseed & 0x20000 else None}]
    if ALLCMDS[case["command"]][0] == "pool":
        # a recorded symbolic link to a directory of the array that holds an empty sub-directory: pool must not reach through it
        pd = (dseed >> 9) % nd
        case["init"] = case["init"] + [{"op": "create", "disk": pd, "name": "album/song", "size": 1000, "cseed": 5, "kind": 0},
                                       {"op": "mkdir", "disk": pd, "name": "album/incoming/new"},
                                       {"op": "symlink", "disk": pd, "name": "latest", "target": "album"}]
        case["prog"] = case["prog"] + [{"op": "sync"}]
    if ALLCMDS[case["command"]][0] == "touch":
        # touch acts on time-stamps with a zero sub-second part: make them frequent, in synced files, in files changed or
        # re-stamped since the last sync (whole seconds again) and in files the content file does not know
        for i, s in enumerate(case["init"]):
            if s.get("op") == "create" and (dseed >> i) & 1:
                s["ns0"] = True
        if dseed & 0x100:
            case["condition"] = "pending"
        case["pending"] = case["pending"] + [
            {"op": "touch", "disk": (dseed >> 9) % nd, "fi": (dseed >> 11) % 8, "ns0": True},
            {"op": "rewrite", "disk": (dseed >> 14) % nd, "fi": (dseed >> 16) % 8, "cseed": dseed, "ns0": bool(dseed & 0x80000)},
            {"op": "create", "disk": (dseed >> 9) % nd, "name": gen.name_of(dseed >> 12), "size": gen.size_of(dseed >> 5, bs), "cseed": dseed, "ns0": True}][:1 + (dseed >> 6) % 3]
    return case


def strategy(tier):
    return st.tuples(gen.CFG, st.lists(gen.STEP, min_size=3, max_size=10),
                     st.lists(st.tuples(st.integers(0, 8), gen.STEP), min_size=0, max_size=15),
                     st.sampled_from(range(len(CONDITIONS))), st.lists(st.tuples(st.integers(0, 63), st.integers(0, 63)), min_size=1, max_size=4),
                     st.integers(0, 1 << 20), st.sampled_from(range(len(ALLCMDS)))).map(decode_case)


def diff_keys(a, b):
    """paths whose entry differs (bytes / mtime / type / link target); inode ignored"""
    out = []
    for k in set(a) | set(b):
        x, y = a.get(k), b.get(k)
        if x is None or y is None:
            out.append(k)
        elif x[0] != y[0]:
            out.append(k)
        elif x[0] == "f" and (x[1] != y[1] or x[3] != y[3]):
            out.append(k)
        elif x[0] == "l" and x[1] != y[1]:
            out.append(k)
    return sorted(out)


def run_case(case, ctx):
    cfg = dict(case["cfg"])
    cfg["rules"] = ["exclude *.unrecoverable"]
    w = World(cfg, ctx.rel)
    classes = set()
    try:
        for s in case["init"]:
            w.fs_step(s)
        fail, hs = run_history(w, case["prog"])
        if hs["timeout"]:
            return Outcome(ok=True, inconclusive=True)
        if fail:
            return Outcome(ok=False, why=fail)
        cond = case["condition"]
        if cond != "pending":
            w.cmd("sync", ["-E", "-Z"])
        try:
            c = w.content_model()
        except cfparse.ContentError as e:
            return Outcome(ok=False, why="content not loadable: %s" % e)
        keep = None
        cps = [p for p in w.arr.content_paths() if os.path.exists(p)]
        if cps:
            keep = cps[-1]
        if c is not None:
            if cond == "pending":
                for s in case["pending"]:
                    w.fs_step(s)
            elif cond in ("silent", "files_damaged", "parity_damaged", "disk_lost", "mixed"):
                vict = case["victims"]
                if cond == "silent":
                    vict = [{"dev": v["dev"], "shape": "flip_some"} for v in vict]
                elif cond == "files_damaged":
                    vict = [{"dev": v["dev"], "shape": "mixed"} for v in vict if v["dev"][0] == "d"]
                elif cond == "parity_damaged":
                    vict = [v for v in vict if v["dev"][0] == "p"] or [{"dev": "p0", "shape": "garbage"}]
                elif cond == "disk_lost":
                    vict = [{"dev": "d1", "shape": "empty"}]
                damage.apply_devices(w, c, vict, case["seed"], keep_content=keep)
            elif cond == "content_missing" and len(cps) > 1:
                os.unlink(cps[0])
        classes.add("condition " + cond)
        cmd, args = ALLCMDS[case["command"]]
        classes.add("command " + cmd)
        before = w.arr.snap_all()
        lock = os.path.relpath(w.arr.content_paths()[0] + ".lock", w.arr.root).encode()
        run = w.cmd(cmd, args)
        if run.timed_out:
            return Outcome(ok=True, inconclusive=True)
        if run.rc < 0:
            return Outcome(ok=False, why="%s %s died with signal %d" % (cmd, " ".join(args), -run.rc))
        after = w.arr.snap_all()
        changed = [k for k in diff_keys(before, after) if k != lock]
        contents = set(os.path.relpath(p, w.arr.root).encode() for p in w.arr.content_paths())
        content_tmp = set(k + b".tmp" for k in contents)
        parities = set(os.path.relpath(p, w.arr.root).encode() for p in w.arr.all_parity_paths())
        disks = [d.encode() for d in w.arr.all_disk_names()]
        label = "%s %s (rc=%d, array %s)" % (cmd, " ".join(args), run.rc, cond)
        known = []

        def bad(k, msg):
            return Outcome(ok=False, why="%s: %s %r" % (label, msg, k), detail=ev_json(w.events, 30))

        if (cmd, args) in [(c_, a_) for c_, a_ in READONLY]:
            if changed:
                return bad(changed[0], "read-only command changed")
        elif cmd == "scrub":
            for k in changed:
                if k not in contents:
                    return bad(k, "scrub changed something that is not a content file:")
        elif cmd == "sync":
            for k in changed:
                if k in contents or k in parities:
                    continue
                if k in content_tmp and run.rc != 0:
                    continue
                return bad(k, "sync changed something that is neither a content nor a parity file:")
        elif cmd == "touch":
            for k in changed:
                if k in contents:
                    continue
                x, y = before.get(k), after.get(k)
                ok = (x and y and x[0] == "f" and y[0] == "f" and x[1] == y[1] and x[3] // 10**9 == y[3] // 10**9 and x[3] % 10**9 == 0
                      and any(k.startswith(d + b"/") for d in disks))
                if not ok:
                    return bad(k, "touch changed more than the zero sub-second part of a time-stamp:")
        elif cmd == "pool":
            for k in changed:
                if not (k == b"pool" or k.startswith(b"pool/")):
                    return bad(k, "pool changed something outside the pool directory:")
        elif cmd == "fix":
            named = set()
            unrec = set()
            for t in run.tags:
                if t[0] == b"fixed" and len(t) >= 4 and t[1].isdigit():
                    named.add(t[2] + b"/" + t[3])
                elif t[0] == b"fixed" and len(t) >= 3:
                    named.add(t[1] + b"/" + t[2])
                elif t[0] == b"status" and len(t) >= 4:
                    named.add(t[2] + b"/" + t[3])
                    if t[1] == b"unrecoverable":
                        unrec.add(t[2] + b"/" + t[3])
                elif t[0] in (b"hardlink_fixed", b"symlink_fixed", b"dir_fixed", b"collision") and len(t) >= 3:
                    named.add(t[1] + b"/" + t[2])
            if run.rc != 0 and not run.summary("exit"):
                # fix stopped with a fatal error in the middle of a stripe (no summary): the files of that stripe it had
                # named in error: tags were open for writing and could not be reported any more
                last = None
                for t in run.tags:
                    if t[0] in (b"error", b"fixed", b"parity_error", b"parity_fixed") and len(t) >= 2 and t[1].isdigit():
                        last = t[1]
                for t in run.tags:
                    if t[0] == b"error" and len(t) >= 4 and t[1] == last:
                        named.add(t[2] + b"/" + t[3])
                classes.add("fix aborted by a fatal error")
            pfixed = {}
            for t in run.tags:
                if t[0] == b"parity_fixed" and len(t) >= 3:
                    pfixed.setdefault(t[2], set()).add(int(t[1]))
            anc = set()
            for n in named:
                p = os.path.dirname(n)
                while p and p not in [d for d in disks]:
                    anc.add(p)
                    p = os.path.dirname(p)
            for k in changed:
                if k in contents or k in content_tmp:
                    return bad(k, "fix changed a content file:")
                if k in parities:
                    x, y = before.get(k), after.get(k)
                    if x and y and x[0] == "f" and y[0] == "f":
                        lev_name = os.path.basename(k).rsplit(b".", 1)[0]
                        bs = w.arr.bs
                        n = min(len(x[1]), len(y[1])) // bs
                        # logical position of a block in this split: needs the recorded split sizes; single-file case is direct
                        nsplit = w.arr.nsplits([b"parity", b"2-parity", b"3-parity", b"4-parity", b"5-parity", b"6-parity"].index(os.path.basename(k).rsplit(b".", 1)[0]))
                        if nsplit == 1:
                            for i in range(n):
                                if x[1][i * bs:(i + 1) * bs] != y[1][i * bs:(i + 1) * bs] and i not in pfixed.get(lev_name, ()):
                                    return bad(k, "fix changed parity block %d which it does not report as parity_fixed in" % i)
                    continue
                if k in named or k in anc:
                    continue
                # another name (hard link) of a file fix reports: the same inode, so the same bytes and time-stamp change
                xk = before.get(k)
                if xk and xk[0] == "f" and len(xk) >= 6 and xk[5] > 1 and \
                        any(before.get(n_) and before[n_][0] == "f" and before[n_][4] == xk[4] for n_ in named):
                    continue
                if k.endswith(b".unrecoverable") and k[:-len(b".unrecoverable")] in unrec:
                    continue
                # C12-stop-leaves-ancestor-dir (listed finding): fix stopped ("Stopping at block N"); a directory it had created
                # to re-create a file of that stripe (named in an error: tag of stripe N) stays behind, empty, unreported
                mstop = re.search(rb"Stopping at block (\d+)", run.err + run.out)
                if mstop and before.get(k) is None and after.get(k) is not None and after[k][0] == "d":
                    nstop = mstop.group(1)
                    wanted = [t[2] + b"/" + t[3] for t in run.tags if t[0] == b"error" and len(t) >= 4 and t[1] == nstop]
                    below = [x for x in after if x.startswith(k + b"/")]
                    if any(x.startswith(k + b"/") for x in wanted) and all(after[x][0] == "d" for x in below):
                        known.append("C12-stop-leaves-ancestor-dir")
                        continue
                return bad(k, "fix changed a path it does not report:")
        c2 = c
        nontrivial = c2 is not None and c2.blockmax > 0
        fp = hashlib.sha1(json.dumps(case, sort_keys=True).encode()).hexdigest()[:16]
        sample = {"cfg": case["cfg"], "condition": cond, "command": [cmd] + args, "rc": run.rc, "changed": [k.decode("latin-1") for k in changed[:8]]}
        return Outcome(ok=True, fp=fp, nontrivial=nontrivial, classes=sorted(classes | {"damaged + read-only command"} if (cond not in ("healthy",) and (cmd, args) in READONLY) else classes), sample=sample,
                       known=sorted(set(known)))
    finally:
        w.destroy()
