"""C05: fix never silently leaves or produces wrong data."""
import hashlib
import json
import os
import re
import shlex

from hypothesis import strategies as st

import cfparse
import damage
import gen
import hashes
import treecmp
from pbt import Outcome
from prog import run_command, cfg_classes, ev_json
from world import World, RESERVED_PREFIX

PID = "C05"
LEVEL = "exploration"
RULE = ("Hypothesis cases {config, base tree, change set, imperfect sync, later changes, damage, fix options}: a base tree is synced; "
        "a change set (adds, overwrites, deletes, moves, copies) is applied; then an imperfect sync: partial (-S/-B), killed after the "
        "parity update (--test-kill-after-sync), killed by the shim at a parity write, or disturbed between scan and sync by "
        "--test-run (a file removed / rewritten / made unreadable so its stripes are skipped); optional further changes; then damage "
        "on ANY number of devices (files missing, truncated, grown, bytes changed in blocks, parity deleted/garbled) and fix with a "
        "generated combination of -f/-d/-m/-e. Oracle (version store): every recorded file either has the bytes of its recorded "
        "(size,mtime) version, or is reported unrecoverable (status line, .unrecoverable file, summary count, exit != 0), or was left "
        "byte-identical; a status:recovered line with other bytes is a violation; unselected / unknown paths are untouched. "
        "Non-trivial: the pre-fix content has CHG/REP/DELETED blocks and >=1 recorded file was damaged, or damage exceeds N; "
        "distinct = hash of the case.")
ASSUMPTIONS = [
    "hash size 16: the property does not range over hash sizes, and with reduced hashes the ZERO/INVALID marks of pending blocks cannot be told from real hashes (by design, elem.h)",
    "the recorded version of a file is the harness-written version with the recorded size and mtime",
    "histories contain no intermediate fix, so every (path,size,mtime) identity on disk was written by the harness",
]


def variants():
    return ["rel", "shim", "oracle"]


def budget(tier):
    return 1000 if tier == "quick" else 8000


FIXOPTS = [[], [], [], ["-m"], ["-e"], ["-f", "a"], ["-f", "dir1/"], ["-d", "d1"], ["-d", "d2"], ["-d", "parity"], ["-m", "-d", "d1"], ["-f", "*1"]]


def decode_case(raw):
    cfgt, base, chg, imp, later, dints, dseed, fo = raw
    cfg = gen.decode_cfg(cfgt, max_disks=4, hashsizes=(16,), allow_split=(cfgt[12] % 8 == 3))
    bs, nd = cfg["bs_kib"] * 1024, cfg["ndisks"]
    cfg["fake_uuid"] = False
    base_steps = [gen.decode_fs((0,) + tuple(t[1:]), bs, nd, odd=False, links=False) for t in base]
    chg_steps = [gen.decode_fs(t, bs, nd, odd=False, links=False) for t in chg]
    later_steps = [gen.decode_fs(t, bs, nd, odd=False, links=False) for t in later]
    kind = ["partial", "partial", "kill_after", "shim_kill", "run_remove", "run_rewrite", "run_chmod", "complete"][imp[0] % 8]
    imperfect = {"kind": kind, "S": imp[1] % 8, "B": 1 + imp[2] % 8, "k": imp[1], "disk": imp[2] % nd, "fi": imp[3]}
    nvict = 1 + (dseed % (cfg["levels"] + 2))
    victims = damage.decode_devices(dints, cfg, nvict, allow_silent=True)
    dmg = {"victims": victims, "seed": dseed}
    if nd >= 2 and (dseed >> 4) % 3 == 0:
        # copy-detected files in an unfinished sync, then lost together with (or without) the file they were copied from
        for i in range(1 + (dseed >> 6) % 2):
            a = (dseed >> (8 + 3 * i)) % nd
            b = (a + 1 + (dseed >> (16 + i)) % (nd - 1)) % nd
            chg_steps.append({"op": "copy", "disk": a, "fi": (dseed >> (12 + 2 * i)) % 4, "disk2": b, "keep_name": True})
            tgt = "d%d" % (b + 1)
            if (dseed >> 18) % 4 != 0 and all(v["dev"] != tgt for v in victims):
                # the disk that received the copy is among the damaged ones
                victims = ([{"dev": tgt, "shape": ["empty", "delete_some", "mixed"][(dseed >> 9) % 3]}] + victims)[:max(1, nvict)]
                dmg["victims"] = victims
        if kind not in ("partial", "kill_after", "shim_kill"):
            imperfect["kind"] = ["kill_after", "partial"][(dseed >> 7) % 2]
        dmg["lose_copy_sources"] = (dseed >> 5) % 3 != 0
        # second round: the copies are removed again, other files take their place, and another unfinished sync follows
        dmg["second_round"] = (dseed >> 19) % 2 == 0
    return {"cfg": cfg, "base": base_steps, "changes": chg_steps, "imperfect": imperfect, "later": later_steps,
            "damage": dmg, "fixopts": FIXOPTS[fo % len(FIXOPTS)]}


def strategy(tier):
    return st.tuples(gen.CFG, st.lists(gen.STEP, min_size=2, max_size=8), st.lists(gen.STEP, min_size=1, max_size=8),
                     st.tuples(st.integers(0, 255), st.integers(0, 255), st.integers(0, 255), st.integers(0, 255)),
                     st.lists(gen.STEP, min_size=0, max_size=3),
                     st.lists(st.tuples(st.integers(0, 63), st.integers(0, 63)), min_size=1, max_size=8),
                     st.integers(0, 1 << 20), st.integers(0, 63)).map(decode_case)


def selected(fixopts, disk, rel, missing, content_disks):
    """does the generated filter combination select this file (reference evaluation of the simple forms used here)"""
    import fnmatch
    i = 0
    ok = True
    while i < len(fixopts):
        o = fixopts[i]
        if o == "-m":
            ok = ok and missing
            i += 1
        elif o == "-e":
            return None  # depends on bad marks; not evaluated here
        elif o == "-d":
            d = fixopts[i + 1]
            if d in content_disks or d.startswith("d"):
                ok = ok and (disk == d)
            else:
                ok = False  # a parity name selects no data file
            i += 2
        elif o == "-f":
            pat = fixopts[i + 1]
            r = rel.decode("latin-1")
            if pat.endswith("/"):
                comps = r.split("/")[:-1]
                ok = ok and any(fnmatch.fnmatchcase(c, pat[:-1]) for c in comps)
            else:
                ok = ok and fnmatch.fnmatchcase(r.split("/")[-1], pat)
            i += 2
        else:
            i += 1
    return ok


def run_case(case, ctx):
    cfg = dict(case["cfg"])
    cfg["rules"] = ["exclude *.unrecoverable"]
    w = World(cfg, ctx.rel, shim=ctx.shim)
    classes = set(cfg_classes(case["cfg"]))
    try:
        for s in case["base"]:
            w.fs_step(s)
        r = w.cmd("sync")
        if r.rc != 0:
            return Outcome(ok=True, classes=["base sync refused"])
        c0 = w.content_model()
        w.c0 = c0
        for s in case["changes"]:
            w.fs_step(s)
        imp = case["imperfect"]
        kind = imp["kind"]
        classes.add("imperfect: " + kind)
        if kind == "partial":
            r = w.cmd("sync", ["-E", "-Z", "-S", str(imp["S"]), "-B", str(imp["B"])])
        elif kind == "kill_after":
            r = w.cmd("sync", ["-E", "-Z", "--test-kill-after-sync"])
        elif kind == "shim_kill":
            r = w.cmd("sync", ["-E", "-Z"], shim_env={"KILL": "%d:after" % (10 + imp["k"] % 60)})
        elif kind.startswith("run_"):
            rel = w.pick(imp["disk"], imp["fi"])
            if rel is None:
                r = w.cmd("sync", ["-E", "-Z"])
            else:
                p = os.fsdecode(w.full(imp["disk"], rel))
                if kind == "run_remove":
                    cmdline = "rm -f %s" % shlex.quote(p)
                elif kind == "run_rewrite":
                    cmdline = "head -c 37 /dev/zero >> %s" % shlex.quote(p)
                else:
                    cmdline = "chmod 000 %s" % shlex.quote(p)
                r = w.cmd("sync", ["-E", "-Z", "--test-run", cmdline])
                if kind == "run_chmod" and os.path.exists(w.full(imp["disk"], rel)):
                    os.chmod(w.full(imp["disk"], rel), 0o644)
                if kind == "run_rewrite" and os.path.exists(w.full(imp["disk"], rel)):
                    # the disturbance is a legitimate user change: register the new version
                    st_ = os.lstat(w.full(imp["disk"], rel))
                    w.store.put(w.dname(imp["disk"]), rel, w.read_file(imp["disk"], rel), st_.st_mtime_ns)
        else:
            r = w.cmd("sync", ["-E", "-Z"])
        if r.timed_out:
            return Outcome(ok=True, inconclusive=True)
        if case["damage"].get("second_round"):
            try:
                w.c1 = w.content_model()
            except cfparse.ContentError:
                w.c1 = None
            n2 = 0
            for ev in list(w.events):
                if ev and ev[0] == "copy" and os.path.isfile(w.full(ev[3], ev[4])):
                    size_ = os.path.getsize(w.full(ev[3], ev[4]))
                    os.unlink(w.full(ev[3], ev[4]))
                    w.fs_step({"op": "create", "disk": ev[3], "name": "second%d" % n2, "size": max(1, size_), "cseed": 7000 + n2 + case["damage"]["seed"] % 1000, "kind": 0})
                    n2 += 1
            if n2:
                classes.add("second unfinished sync after the copies were replaced")
                if imp["kind"] == "kill_after":
                    r = w.cmd("sync", ["-E", "-Z", "--test-kill-after-sync"])
                else:
                    r = w.cmd("sync", ["-E", "-Z", "-S", str(imp["S"]), "-B", str(imp["B"])])
                if r.timed_out:
                    return Outcome(ok=True, inconclusive=True)
        for s in case["later"]:
            w.fs_step(s)
        try:
            c = w.content_model()
        except cfparse.ContentError as e:
            return Outcome(ok=False, why="content not loadable after the imperfect sync: %s" % e)
        if c is None:
            return Outcome(ok=True, classes=["no content"])
        imperfect_state = cfparse.has_unsynced(c)
        # damage (any number of devices)
        keep = [p for p in w.arr.content_paths() if os.path.exists(p)][0]
        # silent byte changes only in blocks that have a recorded hash of their current content (BLK / REP),
        # and only in files whose on-disk identity is the recorded one: that is the property's damage domain
        flippable = set()
        for dn in w.arr.disk_names():
            d = c.disks.get(dn.encode())
            for f in (d.files if d else []):
                try:
                    st_ = os.lstat(w.full(dn, f.sub))
                except OSError:
                    continue
                if st_.st_size != f.size or st_.st_mtime_ns // 10**9 != f.mtime_sec or st_.st_mtime_ns % 10**9 != f.mtime_nsec:
                    continue
                for i, (pos, st2, h) in enumerate(f.blocks):
                    if st2 in (cfparse.BLK, cfparse.REP):
                        flippable.add((dn, f.sub, i))
        led = damage.apply_devices(w, c, case["damage"]["victims"], case["damage"]["seed"], keep_content=keep, flippable=flippable)
        if case["damage"].get("lose_copy_sources"):
            for ev in w.events:
                if ev and ev[0] == "copy":
                    p_ = w.full(ev[1], ev[2])
                    if os.path.isfile(p_) and not os.path.islink(p_):
                        os.unlink(p_)
                        classes.add("source of a copied file lost too")
        for dn_ in w.arr.disk_names():
            d_ = c.disks.get(dn_.encode())
            for f_ in (d_.files if d_ else []):
                if any(b_[1] == cfparse.REP for b_ in f_.blocks) and not os.path.exists(w.full(dn_, f_.sub)):
                    classes.add("lost file with copy-detected (REP) blocks")
        for v in case["damage"]["victims"]:
            classes.add("damage " + v["dev"][0] + ":" + v["shape"])
        if len(case["damage"]["victims"]) > cfg["levels"]:
            classes.add("damage exceeds N")
        pre = w.arr.snap_data()
        pre_all = w.arr.snap_all()
        fx = w.cmd("fix", case["fixopts"])
        if fx.timed_out:
            return Outcome(ok=True, inconclusive=True)
        if fx.rc < 0:
            return Outcome(ok=False, why="fix died with signal %d" % -fx.rc)
        status = {}
        statrun = {}
        statpre = {}
        w.fix_parity_mismatch = set()

        def note_mismatch(run):
            for t in run.tags:
                if t[0] == b"parity_error" and len(t) >= 5 and t[3] == b"parity" and b"Parity mismatch" in t[4] and t[1].isdigit():
                    w.fix_parity_mismatch.add(int(t[1]))
        note_mismatch(fx)
        for t in fx.tag("status"):
            if len(t) >= 4:
                status[(t[2].decode(), t[3])] = t[1].decode()
                statrun[(t[2].decode(), t[3])] = (fx.rc, int((fx.summary("error_unrecoverable") or [b"1"])[0]))
                statpre[(t[2].decode(), t[3])] = pre
        # a fix that stops with a fatal error (e.g. "file disappeared ... rerun the same command" when a file it had
        # indexed as a data source was renamed or cut by fix itself) has not completed: re-run it as the tool asks and
        # judge the completed run, keeping the reports of the aborted ones
        reruns = 0
        pre_last = pre
        while fx.rc != 0 and not fx.summary("exit") and reruns < 3:
            reruns += 1
            classes.add("fix aborted by a fatal error and re-run")
            pre_last = w.arr.snap_data()   # what the aborted run left: the state the judged run starts from
            fx = w.cmd("fix", case["fixopts"])
            if fx.timed_out:
                return Outcome(ok=True, inconclusive=True)
            note_mismatch(fx)
            for t in fx.tag("status"):
                if len(t) >= 4:
                    status[(t[2].decode(), t[3])] = t[1].decode()
                    statrun[(t[2].decode(), t[3])] = (fx.rc, int((fx.summary("error_unrecoverable") or [b"1"])[0]))
                    statpre[(t[2].decode(), t[3])] = pre_last
        if fx.rc != 0 and not fx.summary("exit"):
            return Outcome(ok=True, classes=sorted(classes | {"fix keeps aborting"}), inconclusive=True)
        post = w.arr.snap_data()
        stop_at = None
        m = re.search(rb"Is a directory\.\s*\n(?:.*\n)?DANGER! Without a working data disk[^\n]*\nStopping at block (\d+)", fx.err)
        if m and fx.rc != 0 and int((fx.summary("error_unrecoverable") or [b"0"])[0]) >= 1:
            stop_at = int(m.group(1))
            classes.add("fix stopped at a block (recorded path is a directory)")
        nunrec = int((fx.summary("error_unrecoverable") or [b"0"])[0])
        known = []
        damaged_recorded = 0
        for dn in w.arr.disk_names():
            d = c.disks.get(dn.encode())
            rec = {f.sub: f for f in d.files} if d else {}
            for rel, f in rec.items():
                V = w.store.get(dn, rel, f.size, f.mtime_sec, f.mtime_nsec)
                a, b = pre[dn].get(rel), post[dn].get(rel)
                pre_bytes = a[1] if a and a[0] == "f" else None
                post_bytes = b[1] if b and b[0] == "f" else None
                if V is not None and pre_bytes != V:
                    damaged_recorded += 1
                # known-finding signatures look at the state the JUDGED run found (after an aborted run: what that run left)
                snap_sig = statpre.get((dn, rel), pre_last)[dn]   # the run that reported the file, else the last one
                # fix renames an existing <name>.unrecoverable (left by an earlier run) back to <name> before it looks at it
                a_sig = snap_sig.get(rel) or snap_sig.get(rel + b".unrecoverable")
                pre_sig = a_sig[1] if a_sig and a_sig[0] == "f" else None
                stt = status.get((dn, rel))
                if stt == "recovered":
                    if V is not None and post_bytes != V:
                        sig = classify(w, c, dn, f, V, pre_sig, post_bytes, a_sig, reruns)
                        if sig:
                            known.extend(sig)
                            continue
                        return Outcome(ok=False, why="fix reports %s/%s recovered but its bytes are not the recorded version (size %d)" % (dn, rel.decode("latin-1"), f.size),
                                       detail={"fixopts": case["fixopts"], "states": [b_[1] for b_ in f.blocks]})
                elif stt == "unrecoverable":
                    rrc, rn = statrun[(dn, rel)]
                    if rrc == 0 or rn < 1:
                        return Outcome(ok=False, why="%s/%s reported unrecoverable but exit status %d / summary count %d" % (dn, rel.decode("latin-1"), rrc, rn))
                else:
                    # no final status: fix must not have changed the file
                    if a != b and not (a and b and a[0] == "f" and b[0] == "f" and a[1] == b[1] and a[3] == b[3]):
                        if V is not None and post_bytes == V:
                            continue  # silently repaired to the recorded version (e.g. size fix): fine
                        sig = classify(w, c, dn, f, V, pre_sig, post_bytes, a_sig, reruns)
                        if sig:
                            known.extend(sig)
                            continue
                        # C05-stop-unfinished: fix stopped ("Stopping at block N") because a recorded path is now a directory and
                        # cannot be opened for writing; a damaged file that still has blocks at positions >= N was being
                        # rewritten and is left as it is, without a status line (the run itself exits with a failing status)
                        if stop_at is not None and f.blocks and max(p_ for p_, _, _ in f.blocks) >= stop_at and V is not None and pre_bytes != V:
                            known.append("C05-stop-unfinished")
                            continue
                        return Outcome(ok=False, why="fix modified %s/%s without reporting it recovered or unrecoverable, and it is not the recorded version" % (dn, rel.decode("latin-1")))
            # paths unknown to the content file are never written
            for rel, a in treecmp.user_entries(pre[dn]).items():
                if rel in rec or a[0] != "f":
                    continue
                if any(l.sub == rel for l in (d.links if d else [])):
                    continue
                b = post[dn].get(rel)
                if b is None or b[0] != "f" or b[1] != a[1] or b[3] != a[3]:
                    # fix may move an unknown file away only by renaming a *recorded* damaged file to .unrecoverable
                    return Outcome(ok=False, why="fix touched %s/%s which is unknown to the content file" % (dn, rel.decode("latin-1")))
        # content files are never written by fix
        post_all = w.arr.snap_all()
        for k, a in pre_all.items():
            if os.path.basename(k).startswith(b"content") and not k.endswith(b".lock") and a[0] == "f":
                b = post_all.get(k)
                if b is None or b[1] != a[1]:
                    return Outcome(ok=False, why="fix modified content file %r" % k)
        fp = hashlib.sha1(json.dumps(case, sort_keys=True).encode()).hexdigest()[:16]
        nontrivial = (imperfect_state and damaged_recorded > 0) or len(case["damage"]["victims"]) > cfg["levels"]
        if imperfect_state:
            classes.add("pre-fix state has CHG/REP/DELETED blocks")
        sample = {"cfg": case["cfg"], "imperfect": imp, "damage": case["damage"]["victims"], "fixopts": case["fixopts"], "events": ev_json(w.events, 30)}
        return Outcome(ok=True, fp=fp, nontrivial=nontrivial, classes=sorted(classes), sample=sample, known=sorted(set(known)))
    finally:
        w.destroy()


def classify(w, c, dn, f, V, pre_bytes, post_bytes, pre_entry, reruns=0):
    """signature of a listed known finding, or None (see known_findings.json).
    Every block in which the file differs from its recorded version must match the signature."""
    if V is None or post_bytes is None or len(post_bytes) != len(V):
        return None
    bs = c.block_size
    c0 = getattr(w, "c0", None)
    # states in which a position may last have held a synced block: after the base sync and after the first unfinished round
    tabs = [cfparse.position_table(x) for x in [getattr(w, "c1", None), c0] if x is not None]

    def prev(p):
        out = {}
        for t in reversed(tabs):          # later states override earlier ones
            for nm, row in (t.get(p) or {}).items():
                if row[0] == cfparse.BLK and row[2] is not None:
                    out[nm] = row
        return out or None
    sigs = set()
    for i, (pos, st_, h) in enumerate(f.blocks):
        want = V[i * bs:(i + 1) * bs]
        got = post_bytes[i * bs:(i + 1) * bs]
        if want == got:
            continue
        if st_ != cfparse.CHG:
            return None
        # C05-rerun-zero-parity: an earlier fix of this case stopped with a fatal error after it had re-created lost
        # parity files at full length; their never-written stripes read as zeros in the re-run, which rebuilds the
        # pending block from them and, having no hash of it, reports the zeros as the recovered file
        if reruns > 0 and got == b"\0" * len(got):
            sigs.add("C05-rerun-zero-parity")
            continue
        # C05-pending-stale-parity: a pending block (no hash of its new data) lost in a stripe whose parity is still the old
        # one for another pending/deleted block; with no hash, fix sacrifices a parity to check the reconstruction,
        # some combinations disagree (logged "Parity mismatch") but one agrees by coincidence (tiny blocks, or the symmetric
        # g^i / g^-i rows of z-parity) and the garbage, differing from the old data / from zero, is taken for the new data
        if pos in getattr(w, "fix_parity_mismatch", ()):
            others = [v for nm, v in cfparse.position_table(c).get(pos, {}).items() if nm != dn.encode()]
            if any(v[0] != cfparse.BLK for v in others):
                sigs.add("C05-pending-stale-parity")
                continue
        # C05-zero-marker-over-stale-parity: the stripe had become wholly unused (its files were deleted; the content writer drops
        # the DELETED blocks of a stripe no file uses, but nothing rewrites its parity), so a new file allocated there gets the
        # ZERO marker ("parity holds zeros") while the parity still holds the deleted data, which fix rebuilds and takes for new
        if h == b"\xff" * len(h):
            hit = False
            for nm_, row_ in (prev(pos) or {}).items():
                if row_[0] == cfparse.BLK and row_[2] is not None:
                    g_, gi_ = row_[2], row_[3]
                    Vg_ = w.store.get(nm_.decode(), g_.sub, g_.size, g_.mtime_sec, g_.mtime_nsec)
                    if Vg_ is not None and (Vg_[gi_ * bs:(gi_ + 1) * bs] + b"\0" * bs)[:len(want)] == got:
                        hit = True
            if hit:
                sigs.add("C05-zero-marker-over-stale-parity")
                continue
        # C05-chg-length: the block replaced, at the same position, a synced block of another byte length; the rebuilt OLD bytes
        # pass the "is it new data?" test because the past hash is compared over the NEW block's length
        row = (prev(pos) or {}).get(dn.encode())
        if row and row[0] == cfparse.BLK and row[2] is not None:
            g, gi = row[2], row[3]
            Vg = w.store.get(dn, g.sub, g.size, g.mtime_sec, g.mtime_nsec)
            if Vg is not None:
                old = Vg[gi * bs:(gi + 1) * bs]
                if len(old) != len(want) and (old + b"\0" * bs)[:len(want)] == got:
                    sigs.add("C05-chg-length")
                    continue
        # C05-hybrid: the file changed after it was scanned (identity on disk differs from the recorded one); fix keeps the
        # unverifiable pending block as found, restores the other blocks and the old time-stamp, and reports 'recovered'
        if pre_entry and pre_entry[0] == "f" and pre_bytes is not None:
            changed = (pre_entry[2] != f.size) or (pre_entry[3] // 10**9 != f.mtime_sec) or (f.mtime_nsec >= 0 and pre_entry[3] % 10**9 != f.mtime_nsec)
            if changed and pre_bytes[i * bs:i * bs + len(got)] == got:
                sigs.add("C05-hybrid")
                continue
        return None
    return sorted(sigs) or None
