"""C19: move, copy and import shortcuts never accept unverified data."""
import hashlib
import json
import os
import shutil

from hypothesis import strategies as st

import cfparse
import gen
import hashes
import parityoracle
import treecmp
from pbt import Outcome
from prog import cfg_classes, ev_json
from world import World, gen_bytes

PID = "C19"
LEVEL = "exploration"
RULE = ("Hypothesis cases of three kinds over generated configurations. (sync-decoy) a synced tree; then new files that share name (full "
        "path when the sub-second time-stamp is zero), size and time-stamp with a fully hashed file of another or the same disk but hold "
        "different bytes (decoys), true copies with identical bytes, and copies of copies made before any sync completed; then sync in one "
        "of the modes plain / -h (pre-hash) / --force-nocopy / aborted first (-B) then plain. (move) with trusted inodes "
        "(--test-fake-uuid) files are renamed inside a disk and across disks, then sync under a system-call trace. (import) a synced "
        "array loses files and ALL parity; fix runs with an import directory (-i) and with the automatic array search offering true "
        "copies and decoys of equal size and time-stamp. Oracle: a decoy never ends recorded as synced with inherited hashes: sync over a "
        "decoy exits != 0 with 'Unexpected data change', its blocks stay unsynced, every BLK block's hash is the hash of the bytes on "
        "disk (independent hash) and the C06 oracle holds; with -h no parity byte changes; --force-nocopy then succeeds; true copies sync "
        "cleanly; a file moved inside a trusted disk is not read at all, every other new file is read completely; fix restores from "
        "imported or searched data only bytes equal to the recorded version. Non-trivial: the tool reported scan:copy for a decoy / a "
        "scan:move / an imported block; distinct = hash of the case.")
ASSUMPTIONS = [
    "hash size 16 for the decoy cases (a decoy is 'different bytes': with truncated hashes a collision is a legitimate acceptance)",
    "trusted inodes exist only on the first two configured disks (--test-fake-uuid)",
]


def variants():
    return ["rel", "shim", "oracle"]


def budget(tier):
    return 600 if tier == "quick" else 8000


def decode_case(raw):
    kind, cfgt, base, decoys, mode, seed = raw
    cfg = gen.decode_cfg(cfgt, max_disks=4, hashsizes=(16,), allow_split=(cfgt[12] % 8 == 3))
    bs, nd = cfg["bs_kib"] * 1024, cfg["ndisks"]
    k = ["sync-decoy", "sync-decoy", "move", "import"][kind % 4]
    cfg["fake_uuid"] = k == "move"
    base_steps = []
    for i, t in enumerate(base):
        s = gen.decode_fs((0,) + tuple(t[1:]), bs, nd, odd=(t[0] % 3 == 0), links=False)
        s["size"] = max(s["size"], 1)
        base_steps.append(s)
    # delete_src: the source is removed after the new file exists (a move, or a decoy standing in for a moved file); with
    # same_disk the new file tends to land on the positions the source frees
    dz = [{"src": a % 8, "delete_src": a >= 8, "same_disk": a >= 12, "disk": b % nd, "same_dir": c % 2 == 0, "kind": ["decoy", "decoy", "copy", "copy_of_copy"][d % 4],
           "rename_dir": "dd%d" % (d % 3)} for a, b, c, d in decoys]
    return {"kind": k, "cfg": cfg, "base": base_steps, "decoys": dz, "mode": ["plain", "prehash", "nocopy", "partial_then_plain"][mode % 4], "seed": seed}


def strategy(tier):
    return st.tuples(st.integers(0, 3), gen.CFG, st.lists(gen.STEP, min_size=2, max_size=8),
                     st.lists(st.tuples(st.integers(0, 15), st.integers(0, 3), st.integers(0, 1), st.integers(0, 11)), min_size=1, max_size=4),
                     st.sampled_from(range(4)), st.integers(0, 1 << 20)).map(decode_case)


def recorded_files(c):
    out = []
    for name, d in c.disks.items():
        for f in d.files:
            out.append((name.decode(), f))
    return out


def blk_hashes_match_disk(w, c):
    """every BLK block's recorded hash must be the hash of the bytes now on disk for files whose identity is unchanged"""
    bs, hs = c.block_size, c.hash_size
    for dn, f in recorded_files(c):
        p = w.full(dn, f.sub)
        try:
            st_ = os.lstat(p)
        except OSError:
            continue
        if st_.st_size != f.size or st_.st_mtime_ns // 10**9 != f.mtime_sec or st_.st_mtime_ns % 10**9 != f.mtime_nsec:
            continue
        data = open(p, "rb").read()
        for i, (pos, stt, h) in enumerate(f.blocks):
            if stt == cfparse.BLK:
                info = c.info[pos]
                kind, seed = c.prevhash if (info and info.rehash) else c.hash
                if hashes.memhash(kind, seed, data[i * bs:(i + 1) * bs])[:hs] != h:
                    return "%s/%s block %d is recorded as synced with a hash that is not the hash of its bytes" % (dn, f.sub.decode("latin-1"), i)
    return None


def run_sync_decoy(case, ctx, w, classes):
    c0 = w.content_model()
    files = [(dn, f) for dn, f in recorded_files(c0) if f.size > 0]
    if not files:
        return Outcome(ok=True, classes=["no source files"])
    nd = w.arr.cfg["ndisks"]
    decoy_paths = []
    copy_paths = []
    for k, dz in enumerate(case["decoys"]):
        sdn, sf = files[dz["src"] % len(files)]
        if not os.path.isfile(w.full(sdn, sf.sub)) or os.path.islink(w.full(sdn, sf.sub)):
            continue   # removed (or turned into a directory) by an earlier entry of this case
        src_bytes = w.read_file(sdn, sf.sub)
        src_mtime = w.mtime_ns(sdn, sf.sub)
        tdisk = dz["disk"]
        if dz.get("same_disk") and sf.mtime_nsec != 0:
            tdisk = int(sdn[1:]) - 1
        base = os.path.basename(sf.sub)
        if sf.mtime_nsec == 0:
            rel = sf.sub                     # zero sub-second: the whole path must match
            if "d%d" % (tdisk + 1) == sdn:
                tdisk = (tdisk + 1) % nd
                if "d%d" % (tdisk + 1) == sdn:
                    continue
        else:
            rel = base if dz["same_dir"] else os.path.join(dz["rename_dir"].encode(), base)
        tdn = "d%d" % (tdisk + 1)
        if os.path.lexists(w.full(tdn, rel)):
            continue
        if dz["kind"] == "decoy":
            data = bytes((b ^ 0x5A) for b in src_bytes)
            if w.write_file(tdn, rel, data, mtime_ns=src_mtime):
                decoy_paths.append((tdn, rel))
        else:
            if w.write_file(tdn, rel, src_bytes, mtime_ns=src_mtime):
                copy_paths.append((tdn, rel))
                if dz["kind"] == "copy_of_copy":
                    rel2 = os.path.join(b"cc", base) if sf.mtime_nsec != 0 else None
                    t2 = "d%d" % ((tdisk + 1) % nd + 1)
                    if rel2 and not os.path.lexists(w.full(t2, rel2)) and w.write_file(t2, rel2, src_bytes, mtime_ns=src_mtime):
                        copy_paths.append((t2, rel2))
        if dz.get("delete_src") and ((tdn, rel) in decoy_paths or (tdn, rel) in copy_paths):
            os.unlink(w.full(sdn, sf.sub))
            classes.add("source removed after the %s appeared" % ("decoy" if dz["kind"] == "decoy" else "copy"))
    mode = case["mode"]
    classes.add("mode " + mode)
    par_before = [w.arr.read_parity(l) for l in range(w.arr.cfg["levels"])]
    args = ["-E", "-Z"]
    if mode == "prehash":
        args.append("-h")
    if mode == "nocopy":
        args.append("-N")
    if mode == "partial_then_plain":
        w.cmd("sync", args + ["-B", "1"])
    r = w.cmd("sync", args)
    if r.timed_out:
        return Outcome(ok=True, inconclusive=True)
    if b"Insufficient parity space" in r.err:
        return Outcome(ok=True, classes=sorted(classes | {"parity limit reached (legitimate refusal)"}))
    copied = set((t[4].decode(), t[5]) for t in r.tag("scan") if len(t) >= 6 and t[1] == b"copy")
    matched_decoys = [d for d in decoy_paths if d in copied]
    c1 = w.content_model()
    if mode == "nocopy":
        if copied:
            return Outcome(ok=False, why="--force-nocopy still reports copies: %r" % sorted(copied)[:2])
        if r.rc != 0:
            return Outcome(ok=False, why="sync --force-nocopy over decoys exits %d: %s" % (r.rc, r.err[-200:].decode("latin-1")))
    elif matched_decoys:
        classes.add("decoy matched by the stamp lookup")
        if r.rc == 0:
            return Outcome(ok=False, why="sync exits 0 although %d decoys inherited hashes of other files (%r)" % (len(matched_decoys), matched_decoys[:2]))
        changed = [t for t in r.tag("error") if len(t) >= 5 and b"Unexpected data change" in t[4]]
        if not changed:
            return Outcome(ok=False, why="sync failed (rc=%d) but reports no 'Unexpected data change' for the decoys" % r.rc)
        for dn, rel in matched_decoys:
            d = c1.disks.get(dn.encode())
            f = next((x for x in (d.files if d else []) if x.sub == rel), None)
            if f is not None and f.blocks and all(b[1] == cfparse.BLK for b in f.blocks):
                data = w.read_file(dn, rel)
                bsz = c1.block_size
                if any(hashes.memhash(c1.hash[0], c1.hash[1], data[i * bsz:(i + 1) * bsz])[:c1.hash_size] != f.blocks[i][2] for i in range(len(f.blocks))):
                    return Outcome(ok=False, why="decoy %s/%s is recorded as fully synced with the hashes of another file" % (dn, rel.decode("latin-1")))
        if mode == "prehash" and par_before != [w.arr.read_parity(l) for l in range(w.arr.cfg["levels"])]:
            return Outcome(ok=False, why="sync -h found a decoy but parity files were modified before it stopped")
    else:
        if r.rc != 0 and not decoy_paths:
            return Outcome(ok=False, why="sync over true copies exits %d: %s" % (r.rc, r.err[-200:].decode("latin-1")))
    why = blk_hashes_match_disk(w, c1)
    if why:
        return Outcome(ok=False, why=why)
    probs, _ = w.oracle(check_rep_hash=False)
    if probs:
        return Outcome(ok=False, why="after sync (%s): %s" % (mode, probs[0]))
    if matched_decoys and mode != "nocopy":
        r2 = w.cmd("sync", ["-E", "-Z", "-N"])
        if r2.rc != 0 and b"Insufficient parity space" in r2.err:
            return Outcome(ok=True, classes=sorted(classes | {"parity limit reached (legitimate refusal)"}))
        if r2.rc != 0:
            return Outcome(ok=False, why="sync --force-nocopy after the refused sync exits %d" % r2.rc)
        c2 = w.content_model()
        why = blk_hashes_match_disk(w, c2)
        if why:
            return Outcome(ok=False, why="after --force-nocopy: " + why)
        if cfparse.has_unsynced(c2):
            return Outcome(ok=False, why="sync --force-nocopy left unsynced blocks")
        probs, _ = w.oracle()
        if probs:
            return Outcome(ok=False, why="after --force-nocopy: " + probs[0])
    if copy_paths and [p for p in copy_paths if p in copied]:
        classes.add("true copy detected")
    sample = {"mode": mode, "decoys": [[a, b.decode("latin-1")] for a, b in decoy_paths], "copies": [[a, b.decode("latin-1")] for a, b in copy_paths],
              "scan_copy": [[a, b.decode("latin-1")] for a, b in sorted(copied)], "rc": r.rc}
    return Outcome(ok=True, nontrivial=bool(matched_decoys), classes=sorted(classes), sample=sample)


def run_move(case, ctx, w, classes):
    c0 = w.content_model()
    moved = []
    import random
    rnd = random.Random(case["seed"])
    candidates = [(dn, rel) for dn in w.arr.disk_names() for rel in w.list_files(dn)[:3]]
    for dn, rel in candidates:
            if os.path.exists(w.full(dn, rel)) and os.lstat(w.full(dn, rel)).st_nlink == 1 and rnd.random() < 0.6 and os.path.getsize(w.full(dn, rel)) > 0:
                new = b"moved_" + os.path.basename(rel) + b"_%d" % len(moved)
                if rnd.random() < 0.3 and len(w.arr.disk_names()) > 1:
                    # across disks: copy + delete keeping the time-stamp
                    others = [x for x in w.arr.disk_names() if x != dn]
                    tdn = others[rnd.randrange(len(others))]
                    data, mt = w.read_file(dn, rel), w.mtime_ns(dn, rel)
                    if w.write_file(tdn, new, data, mtime_ns=mt):
                        os.unlink(w.full(dn, rel))
                        moved.append((dn, rel, tdn, new, "cross"))
                else:
                    os.rename(w.full(dn, rel), w.full(dn, new))   # same inode, same stamp
                    w.store.put(dn, new, w.read_file(dn, new), w.mtime_ns(dn, new))
                    moved.append((dn, rel, dn, new, "within"))
    trf = os.path.join(w.arr.root, "logs", "movetrace")
    r = w.cmd("sync", ["-E", "-Z"], shim_env={"TRACE": trf})
    if b"Insufficient parity space" in r.err:
        return Outcome(ok=True, classes=sorted(classes | {"parity limit reached (legitimate refusal)"}))
    if r.rc != 0:
        return Outcome(ok=False, why="sync after moves exits %d: %s" % (r.rc, r.err[-200:].decode("latin-1")))
    reads = {}
    for line in (r.trace or b"").decode("latin-1").splitlines():
        p = line.split(" ")
        if len(p) >= 7 and p[2] == "pread" and int(p[6]) > 0:
            from c11 import unesc_trace
            reads[unesc_trace(p[3])] = reads.get(unesc_trace(p[3]), 0) + int(p[6])
    moves = set((t[2].decode(), t[4]) for t in r.tag("scan") if len(t) >= 5 and t[1] == b"move")  # scan:move:disk:old:new
    trusted = set(w.arr.disk_names()[:2])
    nmove = 0
    for (sdn, srel, tdn, trel, how) in moved:
        key = b"/" + tdn.encode() + b"/" + trel
        size = os.path.getsize(w.full(tdn, trel))
        got = sum(v for k, v in reads.items() if k == key)
        if how == "within" and sdn in trusted:
            nmove += 1
            if (tdn, trel) not in moves and (sdn, trel) not in moves:
                classes.add("move not reported (allowed)")
            else:
                # identity established: the file keeps its parity positions and hashes ...
                old = next((f for f in c0.disks[sdn.encode()].files if f.sub == srel), None)
                c1_ = w.content_model()
                new = next((f for f in c1_.disks[tdn.encode()].files if f.sub == trel), None)
                if old is None or new is None or old.blocks != new.blocks:
                    return Outcome(ok=False, why="file %s/%s moved inside a trusted disk did not keep its block map and hashes" % (tdn, trel.decode("latin-1")))
                # ... and needs no reading; it may still be read when another file changed one of its stripes, so the
                # strong form is asserted only when every change of the case is such a move
                if got and all(m[4] == "within" and m[0] in trusted for m in moved):
                    return Outcome(ok=False, why="file %s/%s kept inode, size and time-stamp on a trusted disk, nothing else changed, but it was read again (%d bytes)" % (tdn, trel.decode("latin-1"), got))
        else:
            if got < size:
                return Outcome(ok=False, why="file %s/%s (%s move, identity not established) was recorded after reading %d of %d bytes" % (tdn, trel.decode("latin-1"), how, got, size))
    c1 = w.content_model()
    why = blk_hashes_match_disk(w, c1)
    if why:
        return Outcome(ok=False, why=why)
    probs, _ = w.oracle()
    if probs:
        return Outcome(ok=False, why="after moves: " + probs[0])
    ck = w.cmd("check")
    if ck.rc != 0:
        return Outcome(ok=False, why="check after moves exits %d" % ck.rc)
    classes.add("moves")
    sample = {"moved": [[a, b.decode("latin-1"), c_, d.decode("latin-1"), e] for a, b, c_, d, e in moved], "scan_move": len(moves)}
    return Outcome(ok=True, nontrivial=nmove > 0 and len(moves) > 0, classes=sorted(classes), sample=sample)


def run_import(case, ctx, w, classes):
    c0 = w.content_model()
    files = [(dn, f) for dn, f in recorded_files(c0) if f.size > 0]
    if not files:
        return Outcome(ok=True, classes=["no source files"])
    imp = os.path.join(w.arr.rootb, b"imp")
    lost = []
    offers = {}
    stale = []
    for k, dz in enumerate(case["decoys"]):
        dn, f = files[dz["src"] % len(files)]
        if (dn, f.sub) in offers:
            continue
        data = w.read_file(dn, f.sub)
        mt = w.mtime_ns(dn, f.sub)
        good = dz["kind"] != "decoy"
        offer = data if good else bytes((b ^ 0x33) for b in data)
        bs_ = c0.block_size
        if not good and dz.get("rename_dir") == "dd1" and len(data) > bs_:
            # a decoy that shares whole blocks with the lost file: only one block (not the first) differs
            nb_ = (len(data) + bs_ - 1) // bs_
            j = 1 + (dz["src"] + k) % (nb_ - 1)
            offer = data[:j * bs_] + bytes((b ^ 0x33) for b in data[j * bs_:(j + 1) * bs_]) + data[(j + 1) * bs_:]
            classes.add("decoy sharing blocks with the lost file")
        where = "import" if dz["same_dir"] else "array"
        if where == "import":
            p = os.path.join(imp, b"offer%d" % k)
            with open(p, "wb") as fh:
                fh.write(offer)
            os.utime(p, ns=(mt, mt))
        else:
            tdn = "d%d" % (dz["disk"] + 1)
            rel = b"unsynced_offer%d" % k
            w.write_file(tdn, rel, offer, mtime_ns=mt, register=True)
        offers[(dn, f.sub)] = (good, where, data)
        if not good and dz.get("rename_dir") == "dd2" and where == "import":
            # a STALE offer: the import directory holds the bytes the file had at the last complete sync; the file is then
            # rewritten (same size) and an interrupted sync records the new version with pending blocks, whose past hashes are
            # those of the stale bytes.  Only data matching the hash of the block it replaces may be used: the stale copy never
            with open(p, "wb") as fh:
                fh.write(data)
            stale.append((dn, f.sub, p))
    if stale:
        # re-point the rewrite at the right file (fs_step picks by index): do it by hand, then the interrupted sync
        for dn, sub, p_imp in stale:
            newdata = bytes((b ^ 0x77) for b in offers[(dn, sub)][2])
            w.write_file(dn, sub, newdata)
            offers[(dn, sub)] = (False, "import", newdata)
            nmt = w.mtime_ns(dn, sub)
            os.utime(p_imp, ns=(nmt, nmt))   # -i matches by size and time-stamp: the stale copy carries the new ones
        w.cmd("sync", ["-E", "-Z", "--test-kill-after-sync"])
        classes.add("stale offer for a file rewritten in an interrupted sync")
    for (dn, sub) in offers:
        os.unlink(w.full(dn, sub))
        lost.append((dn, sub))
    for p in w.arr.all_parity_paths():
        if os.path.exists(p):
            os.unlink(p)
    fx = w.cmd("fix", ["-i", os.fsdecode(imp)])
    if fx.timed_out:
        return Outcome(ok=True, inconclusive=True)
    status = {}
    for t in fx.tag("status"):
        if len(t) >= 4:
            status[(t[2].decode(), t[3])] = t[1].decode()
    ngood = 0
    for (dn, sub), (good, where, data) in offers.items():
        p = w.full(dn, sub)
        now = open(p, "rb").read() if os.path.exists(p) else None
        st_ = status.get((dn, sub))
        if st_ == "recovered" and now != data:
            return Outcome(ok=False, why="fix reports %s/%s recovered from %s data that is not the recorded version" % (dn, sub.decode("latin-1"), where))
        if now is not None and now != data and st_ != "unrecoverable" and not os.path.exists(p + b".unrecoverable"):
            if now and len(now) == len(data):
                return Outcome(ok=False, why="fix left %s/%s with bytes that are not the recorded version (offer from %s was a decoy: %s)" % (dn, sub.decode("latin-1"), where, not good))
        if good and now == data:
            ngood += 1   # (using a valid offer is not required by the property: a stripe with another unrecoverable block is given up as a whole)
        classes.add("offer %s %s" % ("copy" if good else "decoy", where))
    sample = {"offers": [[dn, sub.decode("latin-1"), good, where] for (dn, sub), (good, where, d_) in offers.items()], "rc": fx.rc}
    if ngood:
        classes.add("imported/searched copy used")
    return Outcome(ok=True, nontrivial=len(offers) > 0, classes=sorted(classes), sample=sample)


def run_case(case, ctx):
    cfg = dict(case["cfg"])
    cfg["rules"] = ["exclude *.unrecoverable"]
    w = World(cfg, ctx.rel, shim=ctx.shim)
    classes = set(cfg_classes(case["cfg"]))
    classes.add("kind " + case["kind"])
    try:
        for s in case["base"]:
            w.fs_step(s)
        r = w.cmd("sync")
        if r.rc != 0:
            return Outcome(ok=True, classes=["base sync refused"])
        if case["kind"] == "sync-decoy":
            oc = run_sync_decoy(case, ctx, w, classes)
        elif case["kind"] == "move":
            oc = run_move(case, ctx, w, classes)
        else:
            oc = run_import(case, ctx, w, classes)
        if oc.ok and oc.fp is None:
            oc.fp = hashlib.sha1(json.dumps(case, sort_keys=True).encode()).hexdigest()[:16]
        return oc
    finally:
        w.destroy()
