"""C13: results do not depend on thread scheduling or I/O cache depth.
Layer (b): whole-program differential over cache depths and perturbed schedules.
Layers (a) ring harness and (c) hook-trace monitor are driven from c13main.py."""
import hashlib
import json
import os
import shutil
import subprocess

from hypothesis import strategies as st

import cfparse
import damage
import gen
from pbt import Outcome
from prog import cfg_classes, ev_json
from world import World

PID = "C13"
LEVEL = "exploration"
RULE = ("Hypothesis cases {config, base tree, pending changes, silent errors, command, schedules}: the same array snapshot is restored "
        "and then synced (or scrubbed) once per schedule; a schedule is an I/O cache depth in {1, 3, 4, 8, 32, 128, default} plus a "
        "jitter seed that makes the LD_PRELOAD shim yield or sleep pseudo-randomly inside every thread around each read and write, and "
        "a scan mode (threaded / sequential); clock and /dev/urandom are frozen so that the only free variable is the schedule. Oracle: "
        "all runs terminate (watchdog 120 s = >1000x the normal time, confirmed 3 times); exit status, parity files (byte for byte), the "
        "independently parsed content model (free-space counters masked) and the multiset of error / parity_error tags and error counters are equal "
        "to those of the single-threaded run; in the system-call trace every parity position of every level is written exactly once and "
        "only for stripes the single-threaded run wrote. Non-trivial: >= 2 worker threads, more stripes than cache slots + 2 (the ring "
        "wraps) and >= 1 stripe skipped or not written; distinct = (case hash, schedule).")
ASSUMPTIONS = [
    "schedules are sampled (jitter in the shim, cache depth, scan mode), not enumerated: a race with a window that none of the "
    "perturbation points straddles can be missed",
    "total/free block counters (statfs) are masked in the comparison of content models",
]

# a failure of this property depends on the thread schedule: it is confirmed when it shows again at least once in 12 re-runs of
# the same case (on the unchanged tree no case has ever failed once, see flaky_unconfirmed in the evidence)
CONFIRM = (12, 1)

DEPTHS = [1, 3, 4, 8, 32, 128, None]


def variants():
    return ["rel", "shim", "oracle", "ring"]


def budget(tier):
    return 220 if tier == "quick" else 3000


IOMAX = [3, 3, 4, 5, 8, 16, 32, 128, 1]


def decode_ring(t):
    a, b, c, d, e, f, g, h = t
    return {"kind": "ring", "seed": a, "iomax": IOMAX[b % len(IOMAX)], "nd": 1 + c % 12, "np": [1, 2, 1, 3, 6, 0, 2, 4][d % 8] or 1,
            "stripes": [5, 20, 60, 200, 600][e % 5] + e // 5 % 7, "mode": ["sync", "sync", "scrub"][f % 3], "bitmap": g % 7, "skipw": g // 7 % 4,
            "stop": [0, 0, 0, 3, 17][h % 5], "delay": [0, 20, 100, 400][h // 5 % 4], "outside": h // 20 % 2, "werr": [0, 0, 3, 11][h // 40 % 4],
            "yield": (a * 7 + 1) % 1000, "yield_permille": [0, 100, 400][h // 160 % 3]}


def decode_case(raw):
    kind, ringt, cfgt, base, pend, cmd, dseed, scheds = raw
    if kind % 3 == 2:
        return decode_ring(ringt)
    return decode_diff((cfgt, base, pend, cmd, dseed, scheds))


def decode_diff(raw):
    cfgt, base, pend, cmd, dseed, scheds = raw
    cfg = gen.decode_cfg(cfgt, max_disks=5, allow_split=(cfgt[12] % 8 == 3))
    cfg["fake_uuid"] = False
    cfg["order"] = "alpha"
    cfg["io_cache"] = 1
    if cfg["hashsize"] < 8:
        cfg["hashsize"] = 8
    bs, nd = cfg["bs_kib"] * 1024, cfg["ndisks"]
    base_steps = [gen.decode_fs((0,) + tuple(t[1:]), bs, nd, odd=False, links=False) for t in base]
    for s in base_steps:
        s["size"] = s["size"] * (1 + s["cseed"] % 4)
    pend_steps = [gen.decode_fs(t, bs, nd, odd=False, links=False) for t in pend]
    sl = [{"depth": DEPTHS[a % len(DEPTHS)], "jitter": b, "multi_scan": c % 3 != 0} for a, b, c in scheds]
    return {"kind": "diff", "cfg": cfg, "base": base_steps, "pending": pend_steps, "command": ["sync", "sync", "scrub", "sync_prehash"][cmd % 4], "dseed": dseed,
            "silent": dseed % 2 == 0, "schedules": sl}


def strategy(tier):
    ring = st.tuples(st.integers(0, 1 << 20), st.integers(0, 8), st.integers(0, 11), st.integers(0, 7), st.integers(0, 34), st.integers(0, 2),
                     st.integers(0, 27), st.integers(0, 479))
    return st.tuples(st.integers(0, 2), ring, gen.CFG, st.lists(gen.STEP, min_size=3, max_size=12), st.lists(gen.STEP, min_size=1, max_size=8), st.integers(0, 3),
                     st.integers(0, 1 << 20), st.lists(st.tuples(st.integers(0, 6), st.integers(0, 1 << 16), st.integers(0, 5)), min_size=3, max_size=5)).map(decode_case)


def masked_model(data):
    c = cfparse.parse(data)
    d = c.todict()
    for m in d["maps"]:
        m["total_blocks"] = m["free_blocks"] = 0
    for p in d["parities"].values():
        p["total_blocks"] = p["free_blocks"] = 0
        for s in p["splits"]:
            s["path"] = None
    for disk in d["disks"].values():
        for f in disk["files"]:
            f["inode"] = 0
    return d


def observe(w, run, levels):
    # the property speaks of errors, parity bytes and the array state.  scan:copy / scan:add and the scan counters are not part
    # of it: whether a new file is first taken for a copy of a file that the same scan removes from another disk depends on
    # the scan MODE (per-disk threads walk all disks before any removal is applied), and the state after the sync is the same
    tags = sorted(b":".join(t) for t in run.tags if t[0] in (b"error", b"parity_error")
                  or (t[0] == b"summary" and len(t) >= 2 and (t[1].startswith(b"error") or t[1] == b"exit")))
    par = [w.arr.read_parity(l) for l in range(levels)]
    content = w.arr.read_content()
    writes = {}
    for line in (run.trace or b"").decode("latin-1").splitlines():
        p = line.split(" ")
        if len(p) >= 7 and p[2] == "pwrite" and p[3].startswith("/par/"):
            writes[(p[3], int(p[4]))] = writes.get((p[3], int(p[4])), 0) + 1
    return {"rc": run.rc, "tags": tags, "parity": par, "content": content, "writes": writes}


def run_ring(case, ctx):
    import ringmon
    import tempfile
    from common import scratch_base
    tr = tempfile.mktemp(prefix="verif-ringtrace-", dir=scratch_base())
    args = [ctx.paths["ring"]] + ["%s=%s" % (k, case[k]) for k in ("seed", "iomax", "nd", "np", "stripes", "bitmap", "skipw", "stop", "delay", "outside", "werr")]
    args.append("mode=" + case["mode"])
    env = dict(os.environ)
    env["SNAPRAID_VERIF_IO_TRACE"] = tr
    if case["yield_permille"]:
        env["SNAPRAID_VERIF_IO_YIELD"] = "%d:%d" % (case["yield"], case["yield_permille"])
    try:
        try:
            r = subprocess.run(args, stdout=subprocess.PIPE, stderr=subprocess.PIPE, env=env, timeout=100)
        except subprocess.TimeoutExpired:
            return Outcome(ok=False, why="io ring harness does not terminate (100 s) with %r" % (args[1:],))
        out = r.stdout.decode("latin-1")
        if r.returncode == 3 or "HANG" in out:
            return Outcome(ok=False, why="io ring made no progress for 30 s (lost wake-up / deadlock) with %r" % (args[1:],))
        if r.returncode == 1:
            return Outcome(ok=False, why="io ring: " + [l for l in out.splitlines() if l.startswith("FAIL")][0][5:])
        if r.returncode != 0:
            return Outcome(ok=False, why="io ring harness ended with status %d: %s" % (r.returncode, (out + r.stderr.decode("latin-1"))[-300:]))
        stats = {}
        if case["iomax"] > 1 and os.path.exists(tr):
            ev, complete = ringmon.load(tr)
            why, stats = ringmon.check(ev)
            if why:
                return Outcome(ok=False, why="io ring ownership protocol: " + why)
        workers = case["nd"] + case["np"]
        nontrivial = case["iomax"] > 1 and workers >= 2 and case["stripes"] >= case["iomax"] + 2 and (case["bitmap"] or case["skipw"])
        fp = hashlib.sha1(json.dumps(case, sort_keys=True).encode()).hexdigest()[:16]
        classes = ["ring iomax=%d" % case["iomax"], "ring mode " + case["mode"]]
        if case["stop"]:
            classes.append("ring early stop")
        if case["werr"]:
            classes.append("ring writer errors")
        if case["yield_permille"]:
            classes.append("ring hook yields")
        return Outcome(ok=True, fp=fp, nontrivial=bool(nontrivial), classes=classes, sample={"ring": case, "monitor": stats})
    finally:
        if os.path.exists(tr):
            os.unlink(tr)


def run_case(case, ctx):
    if case["kind"] == "ring":
        return run_ring(case, ctx)
    cfg = dict(case["cfg"])
    cfg["rules"] = ["exclude *.unrecoverable"]
    w = World(cfg, ctx.rel, shim=ctx.shim)
    classes = set(cfg_classes(case["cfg"]))
    bak = w.arr.root + ".c13bak"
    try:
        for s in case["base"]:
            w.fs_step(s)
        r = w.cmd("sync", shim_env={"CLOCK": 1700000000})
        if r.rc != 0:
            return Outcome(ok=True, classes=["base sync refused"])
        c0 = w.content_model()
        if case["command"] != "scrub":
            for s in case["pending"]:
                w.fs_step(s)
        if case["silent"] and c0.blockmax:
            damage.apply_stripes(w, c0, case["dseed"], 1, density=0.2)
            classes.add("silent errors present")
        if os.path.exists(bak):
            shutil.rmtree(bak)
        subprocess.run(["cp", "-a", w.arr.root, bak], check=True)

        def restore():
            for n in os.listdir(w.arr.root):
                if n == "logs":
                    continue
                p = os.path.join(w.arr.root, n)
                shutil.rmtree(p) if os.path.isdir(p) and not os.path.islink(p) else os.unlink(p)
            for n in os.listdir(bak):
                if n != "logs":
                    subprocess.run(["cp", "-a", os.path.join(bak, n), os.path.join(w.arr.root, n)], check=True)
        cmd = "scrub" if case["command"] == "scrub" else "sync"
        args = ["-p", "full"] if cmd == "scrub" else (["-E", "-Z"] + (["-h"] if case["command"] == "sync_prehash" else []))
        levels = cfg["levels"]

        def one(depth, jitter, multi):
            restore()
            w.arr.cfg["io_cache"] = depth
            w.arr.cfg["multi_scan"] = multi
            env = {"CLOCK": 1700005000, "URANDOM": 7, "TRACE": os.path.join(w.arr.root, "logs", "c13trace%d" % w.arr.ncmd)}
            hookenv = {}
            hooktrace = os.path.join(w.arr.root, "logs", "hook%d" % w.arr.ncmd)
            if jitter is not None:
                env["JITTER"] = "%d:%d:%d" % (jitter, 250, 300)
                hookenv = {"SNAPRAID_VERIF_IO_TRACE": hooktrace, "SNAPRAID_VERIF_IO_YIELD": "%d:200" % jitter}
            run = w.cmd(cmd, args, shim_env=env, env=hookenv, timeout=120)
            run.hooktrace = hooktrace if hookenv else None
            return run
        ref_run = one(1, None, False)
        if ref_run.timed_out:
            return Outcome(ok=True, inconclusive=True)
        ref = observe(w, ref_run, levels)
        nstripes = cfparse.parse(ref["content"]).blockmax if ref["content"] else 0
        fps = []
        base_fp = hashlib.sha1(json.dumps(case, sort_keys=True).encode()).hexdigest()[:12]
        nt = 0
        for sc in case["schedules"]:
            run = one(sc["depth"], sc["jitter"], sc["multi_scan"])
            label = "%s with io cache %s, jitter seed %d, %s scan" % (cmd, sc["depth"], sc["jitter"], "threaded" if sc["multi_scan"] else "sequential")
            if run.timed_out:
                # termination clause: confirm the hang three times
                hangs = 1
                for _ in range(2):
                    if one(sc["depth"], sc["jitter"], sc["multi_scan"]).timed_out:
                        hangs += 1
                if hangs == 3:
                    return Outcome(ok=False, why="%s does not terminate (3 runs, 120 s each; the single-threaded run takes %.2fs)" % (label, 0.05))
                return Outcome(ok=True, inconclusive=True)
            if getattr(run, "hooktrace", None) and os.path.exists(run.hooktrace) and sc["depth"] != 1:
                import ringmon
                ev, complete = ringmon.load(run.hooktrace)
                why, mst = ringmon.check(ev)
                if why:
                    return Outcome(ok=False, why="%s: io ring ownership protocol: %s" % (label, why))
                classes.add("hook trace monitored")
            got = observe(w, run, levels)
            if got["rc"] != ref["rc"]:
                return Outcome(ok=False, why="%s exits %d, the single-threaded run exits %d" % (label, got["rc"], ref["rc"]))
            for l in range(levels):
                if got["parity"][l] != ref["parity"][l]:
                    return Outcome(ok=False, why="%s: parity level %d differs from the single-threaded run" % (label, l + 1))
            if (got["content"] is None) != (ref["content"] is None) or (got["content"] and masked_model(got["content"]) != masked_model(ref["content"])):
                a, b = masked_model(got["content"]), masked_model(ref["content"])
                keys = [k for k in a if a[k] != b.get(k)]
                return Outcome(ok=False, why="%s: saved array state differs from the single-threaded run in %s" % (label, keys))
            if got["tags"] != ref["tags"]:
                diff = sorted(set(got["tags"]) ^ set(ref["tags"]))[:3]
                return Outcome(ok=False, why="%s: reported errors differ from the single-threaded run: %r" % (label, diff))
            for k, v in got["writes"].items():
                if v != 1:
                    return Outcome(ok=False, why="%s: parity position %r written %d times" % (label, k, v))
            if set(got["writes"]) != set(ref["writes"]):
                return Outcome(ok=False, why="%s: set of parity positions written differs from the single-threaded run: %r" % (label, sorted(set(got["writes"]) ^ set(ref["writes"]))[:3]))
            depth = sc["depth"] or 16
            wraps = nstripes >= depth + 2
            skipped = len(ref["writes"]) < nstripes * levels
            if sc["depth"] != 1 and wraps and skipped:
                nt += 1
                fps.append("%s:%s:%d" % (base_fp, sc["depth"], sc["jitter"]))
            classes.add("depth %s" % sc["depth"])
        classes.add("command " + case["command"])
        sample = {"cfg": {k: cfg[k] for k in ("levels", "ndisks", "bs_kib")}, "command": case["command"], "stripes": nstripes,
                  "parity_writes_ref": len(ref["writes"]), "schedules": case["schedules"], "rc": ref["rc"]}
        return Outcome(ok=True, fp=base_fp, nontrivial=nt > 0, classes=sorted(classes), sample=sample, n_eval=len(case["schedules"]) + 1, fps=fps or None)
    finally:
        shutil.rmtree(bak, ignore_errors=True)
        w.destroy()
