"""C02 / C03: the raid library against an independent GF(2^8) model
(engine: native/raidprop.cpp, rapidcheck + deterministic sweeps)."""
import json
import os
import subprocess

from common import Result, build, mix_seed, run_parallel, save_replay, NPROC


def parse(out):
    stats, fail = None, None
    for line in out.splitlines():
        if line.startswith("STATS "):
            stats = json.loads(line[6:])
        elif line.startswith("FAIL "):
            fail = line[5:]
    return stats, fail


def fail_to_args(fail):
    args, why = {}, ""
    if " why=" in fail:
        fail, why = fail.split(" why=", 1)
    for tok in fail.split():
        if "=" in tok:
            k, v = tok.split("=", 1)
            args[k] = v
    return args, why


def replay_args(binp, args):
    cmd = [binp, "replay"] + ["%s=%s" % (k, v) for k, v in args.items()]
    r = subprocess.run(cmd, stdout=subprocess.PIPE, stderr=subprocess.STDOUT)
    return r.returncode, r.stdout.decode(errors="replace")


def jobs_for(pid, tier, seed, binp):
    """list of (label, argv, env)"""
    jobs = []
    big = tier == "thorough"

    def rc(label, mode, n, extra=()):
        for w in range(NPROC):
            s = mix_seed(seed, pid, mode, w)
            env = {"RC_PARAMS": "seed=%d max_success=%d max_size=100" % (s, n)}
            jobs.append((label, ([binp, mode] + list(extra), env)))
    if pid == "C02":
        jobs.append(("tables", ([binp, "tables"], {})))
        for w in range(NPROC):
            jobs.append(("basis", ([binp, "basis", "stride=%d" % NPROC, "offset=%d" % w], {})))
        rc("gen", "gen", 1000000 if big else 50000)
    else:
        rc("rec", "rec", 1000000 if big else 50000)
        rc("recseq", "recseq", 300000 if big else 15000)
        rc("chk", "chk", 400000 if big else 20000)
        jobs.append(("recenum", ([binp, "recenum", "ndmax=%d" % (7 if big else 4)], {})))
        for w in range(NPROC):
            jobs.append(("minors", ([binp, "minors", "full=%d" % (4 if big else 3),
                                     "samples=%d" % (4000000 if big else 200000), "part=%d/%d" % (w, NPROC),
                                     "seed=%d" % mix_seed(seed, pid, "minors")], {})))
        if os.environ.get("VERIF_FULL_MINORS") == "1" and big:
            pass  # orders 5-6 in full are out of budget here; see DESIGN section 8
    return jobs


RULES = {
    "C02": "tables: every entry of every exported lookup table compared with an independent shift-and-xor field and the "
           "documented matrices (exhaustive); basis: for each disk index d (all 251), nd=d+1 and nd=251, a 16 KiB block whose 64 byte "
           "lanes each take all 256 values, through every gen variant the CPU supports and the dispatcher; gen: rapidcheck cases "
           "(variant, nd 1..251 edge-biased, np, size 64k, content kind, pointer aliasing). A case is non-trivial when nd>=2 and the "
           "data is not all zero (basis and table items always are); distinct = distinct full parameter tuples incl. content seed.",
    "C03": "rec: rapidcheck cases (api raid_rec / raid_data / direct rec1|rec2|recX variant int8/ssse3/avx2, generator family, "
           "Cauchy or power matrix, nd 1..251, np, sorted failed index sets, parity subsets, size, content); chk: raid_check accept/"
           "reject and raid_scan on corrupted stripes; recseq: 2-4 decode requests in one process, each derived from the previous one "
           "(prefix, suffix, one index dropped, other parities, one added, same, unrelated), every one answered exactly; recenum: every index set for nd<=ndmax, all np, all decoders; minors: every "
           "square sub-matrix of the exported matrices up to order `full`, sampled above. Non-trivial: at least one failed data "
           "block (rec), at least one corrupted block (chk); distinct = distinct parameter tuples.",
}


def main(pid, tier, seed, replay=None):
    b = build("raidprop")
    binp = b["raidprop"]
    res = Result(pid, tier, seed, "exploration")
    res.rule = RULES[pid]
    res.assumptions = [
        "oracle: GF(2^8)/0x11d by shift-and-xor and matrices from the formulas in raid/raid.c, cross-checked against the excerpt in that comment",
        "buffers aligned to 256 bytes as raid_malloc() does; sizes multiple of 64 as the API requires",
        "only the variants this CPU can run are exercised (sse2, ssse3, avx2 all present here)",
    ]
    if replay:
        obj = json.load(open(replay))
        rcode, out = replay_args(binp, obj["args"])
        print(out.strip())
        if rcode == 1:
            print("VIOLATION property=%s replay=%s" % (pid, replay))
            return 1
        return 0 if rcode == 0 else 2
    jobs = jobs_for(pid, tier, seed, binp)
    outs = run_parallel([j[1] for j in jobs])
    fails = []
    per_mode = {}
    exhaustive_items = 0
    for (label, _), (rcode, out) in zip(jobs, outs):
        stats, fail = parse(out)
        if stats is None:
            print("INFRA: raidprop %s produced no statistics (rc=%s)\n%s" % (label, rcode, out[-2000:]))
            return 2
        m = per_mode.setdefault(label, {"evaluations": 0, "nontrivial": 0, "distinct": 0})
        m["evaluations"] += stats["evaluations"]
        m["nontrivial"] += stats["nontrivial"]
        m["distinct"] += stats["distinct_nontrivial"]
        exhaustive_items += stats.get("exhaustive_items", 0)
        # distinct counts of different processes are over disjoint seeds/partitions; tag them by job index
        res.evaluations += stats["evaluations"]
        res.nontrivial += stats["nontrivial"]
        for i in range(stats["distinct_nontrivial"]):
            pass
        res.extra.setdefault("_distinct_sum", 0)
        res.extra["_distinct_sum"] += stats["distinct_nontrivial"]
        for k, v in stats["classes"].items():
            res.classes[label + ":" + k] = res.classes.get(label + ":" + k, 0) + v
        if len(res.samples) < 8 and stats["samples"] and not any(s.startswith("mode=" + label) for s in res.samples if isinstance(s, str)):
            res.samples.extend(stats["samples"][:2])
        if fail:
            fails.append((label, fail))
    # distinct: each process counts distinct parameter tuples itself (hash set); processes use different seeds/partitions
    n_distinct = res.extra.pop("_distinct_sum")
    res.fingerprints = set(range(n_distinct))
    res.extra["per_mode"] = per_mode
    res.extra["exhaustively_enumerated_items"] = exhaustive_items
    res.extra["exhaustive_subspaces"] = (
        "all table entries; full per-disk byte basis for every variant" if pid == "C02" else
        "all index sets for nd<=%d; all minors up to order %d" % ((7, 4) if tier == "thorough" else (4, 3)))
    seen = set()
    for label, fail in fails:
        args, why = fail_to_args(fail)
        key = json.dumps(args, sort_keys=True)
        if key in seen:
            continue
        seen.add(key)
        path = save_replay(pid, {"property": pid, "engine": "raidprop", "args": args, "why": why})
        n = sum(1 for _ in range(3) if replay_args(binp, args)[0] == 1)
        if n == 3 or args.get("mode") in ("tables", "minors"):
            res.violations.append((path, "%s: %s" % (label, why)))
        else:
            res.flaky.append({"replay": path, "reproduced": n})
        if len(res.violations) >= 3:
            break
    return res.finish()
