"""C18: include/exclude and selection filters follow the documented rules."""
import hashlib
import json
import os

from hypothesis import strategies as st

import cfparse
import filterref
import gen
import treecmp
from pbt import Outcome
from prog import cfg_classes, ev_json
from world import World, gen_bytes

PID = "C18"
LEVEL = "exploration"
RULE = ("Hypothesis cases of two kinds. (rules) a list of 0..8 include/exclude rules from a pattern grammar (FILE, DIR/, /PATH/FILE, "
        "/PATH/DIR/ with literals, * ? [abc] [a-c] [!a] and backslash escapes; plus invalid forms: relative paths with a slash, '.', '..', "
        "empty components) x a tree whose component names are drawn to collide with the patterns (incl. names containing glob characters "
        "and a leading dot) x nohidden; content / .tmp / .lock names inside data disks. Oracle: lib/filterref.py written from the manual: "
        "after sync, list = exactly the files and links the reference includes; configurations with an invalid pattern are rejected by "
        "every command; the tool's own files never enter the array. (select) a plain array with missing files on several disks, fix "
        "with a generated combination of -f (several), -d, -m: restored files = missing AND selected by every option, everything else "
        "byte-identical. Non-trivial: >= 2 rules of different direction with >= 1 path decided by a non-last rule; for selections >= 1 "
        "selected and >= 1 unselected missing file; distinct = hash of the case.")
ASSUMPTIONS = [
    "where 'first match decides' (read on the file alone) and 'an excluded directory takes everything below it' disagree, the manual "
    "is silent: such paths are counted as ambiguous and not asserted",
    "empty-directory inclusion is not asserted (the manual does not define it for include-default rule sets)",
    "patterns use only the glob constructs the manual names; LC_ALL=C byte semantics",
]

COMP = ["a", "b", "ab", "a.txt", "b.txt", "tmp", "x*y", "q?", "[z]", ".hid", "dir", "sub", "A", "abc", "c", "z", "a b", "content", "new\nline", "back\\slash"]
PATTOK = ["a", "b", "ab", "a.txt", "tmp", "dir", "sub", "*", "*.txt", "a*", "?", "??", "[ab]", "[a-c]*", "[!a]*", "x\\*y", "q\\?", "\\[z\\]", ".*", "*b",
          "*.unrecoverable", "A", "[a-c]", "?b*", "content*", "a?b", "back\\\\slash"]
BADPAT = ["a/b", "tmp/sub/", ".", "..", "/./a", "a/../b", "/a//b", "...", "dir/./", "/../x/", "./a", "/a/./"]


def variants():
    return ["rel", "oracle"]


def budget(tier):
    return 800 if tier == "quick" else 12000


def mkpattern(t):
    form, a, b, c = t
    form = form % 8
    A, B, C = PATTOK[a % len(PATTOK)], PATTOK[b % len(PATTOK)], PATTOK[c % len(PATTOK)]
    if form <= 2:
        return A                       # FILE
    if form <= 4:
        return A + "/"                 # DIR/
    if form == 5:
        return "/" + A + "/" + B       # /PATH/FILE
    if form == 6:
        return "/" + A + "/"           # /DIR/
    return "/" + A + "/" + B + "/" + C if c % 2 else "/" + A  # deeper path or rooted file


def decode_case(raw):
    kind, cfgt, rules, bad, tree, nohidden, sel = raw
    cfg = gen.decode_cfg(cfgt, max_disks=3, allow_split=False)
    cfg["fake_uuid"] = False
    nd = cfg["ndisks"]
    paths = []
    for t in tree:
        comps = [COMP[x % len(COMP)] for x in t[1:1 + 1 + t[0] % 3]]
        paths.append({"disk": t[4] % nd, "path": "/".join(comps), "kind": ["f", "f", "f", "f", "l", "d"][t[5] % 6], "size": [0, 1, 1500, 3000][t[5] // 6 % 4]})
    if kind % 4 == 3:
        return {"kind": "select", "cfg": cfg, "tree": paths, "missing": sel[0], "f": [mkpattern(x[1:]) for x in rules[:sel[1] % 3]],
                "d": [["d1"], ["d2"], ["d1", "d2"], []][sel[2] % 4], "m": bool(sel[3] % 2)}
    rl = [["exclude", "include"][t[0] % 2] + " " + mkpattern(t[1:]) for t in rules]
    badrule = None
    if bad[0] % 6 == 0:
        badrule = ["exclude", "include"][bad[1] % 2] + " " + BADPAT[bad[2] % len(BADPAT)]
    return {"kind": "rules", "cfg": cfg, "rules": rl, "badrule": badrule, "tree": paths, "nohidden": bool(nohidden % 3 == 0),
            "content_sub": bool(nohidden % 2)}


def strategy(tier):
    rule = st.tuples(st.integers(0, 1), st.integers(0, 7), st.integers(0, 63), st.integers(0, 63), st.integers(0, 63))
    node = st.tuples(st.integers(0, 2), st.integers(0, 31), st.integers(0, 31), st.integers(0, 31), st.integers(0, 5), st.integers(0, 23))
    return st.tuples(st.integers(0, 3), gen.CFG, st.lists(rule, min_size=0, max_size=8), st.tuples(st.integers(0, 5), st.integers(0, 1), st.integers(0, 31)),
                     st.lists(node, min_size=3, max_size=25), st.integers(0, 5),
                     st.tuples(st.integers(0, 1 << 16), st.integers(0, 5), st.integers(0, 7), st.integers(0, 3))).map(decode_case)


def build_tree(w, tree):
    made = []
    for k, n in enumerate(tree):
        d, rel = n["disk"], n["path"].encode("latin-1")
        p = w.full(d, rel)
        try:
            if n["kind"] == "d":
                os.makedirs(p, exist_ok=True)
            elif n["kind"] == "l":
                os.makedirs(os.path.dirname(p), exist_ok=True)
                if not os.path.lexists(p):
                    os.symlink(b"target%d" % k, p)
            else:
                if os.path.isdir(p):
                    continue
                w.write_file(d, rel, gen_bytes(k, n["size"]))
        except OSError:
            continue
    return made


def walk(w, dn):
    """(files+links set, dirs set) of a data disk, content copies and lock excluded"""
    snap = w.arr.snap_dir(w.arr.disk_dir(dn), with_bytes=False)
    files = set(k for k, v in snap.items() if v[0] in ("f", "l"))
    return files


def run_rules(case, ctx):
    cfg = dict(case["cfg"])
    rules_txt = list(case["rules"])
    cfg["rules"] = rules_txt
    cfg["nohidden"] = case["nohidden"]
    # the second content copy lives in the root of d1 or, in half of the cases, in a sub-directory of it; stale .tmp and .lock
    # files stand beside it before the first sync ("the tool's own content, temporary and lock files [are skipped] always")
    cfg["content"] = ["par", "d1/own.d" if case.get("content_sub") else "d1"]
    w = World(cfg, ctx.rel)
    classes = set()
    cpath = w.arr.content_paths()[1]
    csub = os.path.relpath(cpath, w.arr.disk_dir("d1")).encode()
    own_names = {csub, csub + b".tmp", csub + b".lock"}
    try:
        build_tree(w, case["tree"])
        for ext in (".tmp", ".lock"):
            with open(cpath + ext, "wb") as f:
                f.write(b"stale")
        if case.get("content_sub"):
            classes.add("content copy in a sub-directory of a data disk")
        if case["badrule"] is not None:
            w.arr.cfg["rules"] = rules_txt + [case["badrule"]]
            w.arr.write_conf()
            pat = case["badrule"].split(" ", 1)[1].encode("latin-1")
            if filterref.classify(pat) is not None:
                return Outcome(ok=True, classes=["bad-pattern generator produced a valid form"])
            for cmd in ("sync", "diff", "status"):
                r = w.cmd(cmd)
                if r.rc == 0:
                    return Outcome(ok=False, why="%s accepts the configuration with the invalid pattern %r" % (cmd, case["badrule"]))
            fp = hashlib.sha1(json.dumps(case, sort_keys=True).encode()).hexdigest()[:16]
            return Outcome(ok=True, fp=fp, nontrivial=True, classes=["invalid pattern rejected"], sample={"badrule": case["badrule"]})
        r = w.cmd("sync", ["-E", "-Z"])
        if r.rc != 0:
            return Outcome(ok=False, why="sync with rules %r exits %d: %s" % (rules_txt, r.rc, r.err[-300:].decode("latin-1")))
        ls = w.cmd("list")
        listed = {}
        for t in ls.tags:
            if t[0] in (b"file", b"link_symlink", b"link_hardlink"):
                listed.setdefault(t[1].decode(), set()).add(t[2])
        rules = [(1 if x.startswith("include") else -1, x.split(" ", 1)[1].encode("latin-1")) for x in rules_txt]
        nonlast = False
        amb = 0
        for dn in w.arr.disk_names():
            have = walk(w, dn)
            want = set()
            for sub in have:
                if dn == "d1" and sub in own_names:
                    continue   # the tool's own content / tmp / lock files
                comps = sub.split(b"/")
                if case["nohidden"] and any(c.startswith(b".") for c in comps):
                    continue
                inc, ambiguous = filterref.file_included(rules, sub)
                if ambiguous:
                    amb += 1
                    if sub in listed.get(dn, set()):
                        want.add(sub)
                    continue
                if inc:
                    want.add(sub)
                for k_, rr in enumerate(rules[:-1]):
                    if filterref._match_rule(rr, sub, False):
                        nonlast = True
                        break
            got = listed.get(dn, set())
            own = [s_ for s_ in got if dn == "d1" and s_ in own_names]
            if own:
                return Outcome(ok=False, why="the tool's own file %r entered the array" % own[0])
            if got != want:
                extra, missing = sorted(got - want)[:3], sorted(want - got)[:3]
                return Outcome(ok=False, why="rules %r on %s: in the array but excluded by the documented rules %r; included by the rules but not in the array %r" % (rules_txt, dn, extra, missing),
                               detail={"tree": sorted(x.decode("latin-1") for x in have)})
        dirs = set(x.split(" ")[0] for x in rules_txt)
        classes.add("rules=%d" % len(rules))
        if amb:
            classes.add("ambiguous paths (not asserted)")
        if case["nohidden"]:
            classes.add("nohidden")
        fp = hashlib.sha1(json.dumps(case, sort_keys=True).encode()).hexdigest()[:16]
        sample = {"rules": rules_txt, "nohidden": case["nohidden"], "listed": {k: sorted(x.decode("latin-1") for x in v)[:8] for k, v in listed.items()}}
        return Outcome(ok=True, fp=fp, nontrivial=len(dirs) == 2 and nonlast, classes=sorted(classes), sample=sample)
    finally:
        w.destroy()


def run_select(case, ctx):
    cfg = dict(case["cfg"])
    cfg["rules"] = []
    w = World(cfg, ctx.rel)
    try:
        build_tree(w, case["tree"])
        r = w.cmd("sync", ["-E", "-Z"])
        if r.rc != 0:
            return Outcome(ok=True, classes=["sync refused"])
        snap = w.arr.snap_data()
        cmodel = w.content_model()
        import random
        rnd = random.Random(case["missing"])
        missing = set()
        # files go missing on at most as many disks as there are parity levels, so that every one stays recoverable
        for dn in w.arr.disk_names()[:cfg["levels"]]:
            for rel in w.list_files(dn):
                if rnd.random() < 0.5:
                    os.unlink(w.full(dn, rel))
                    missing.add((dn, rel))
        # recorded empty directories and links go missing too (on any disk: they need no parity)
        gone_other = 0
        for dn in w.arr.disk_names():
            d_ = cmodel.disks.get(dn.encode()) if cmodel else None
            for sub in (list(d_.dirs) if d_ else []):
                p_ = w.full(dn, sub)
                if rnd.random() < 0.5 and os.path.isdir(p_) and not os.path.islink(p_) and not os.listdir(p_):
                    os.rmdir(p_)
                    gone_other += 1
            for l_ in (d_.links if d_ else []):
                p_ = w.full(dn, l_.sub)
                if l_.kind == "symlink" and rnd.random() < 0.5 and os.path.islink(p_):
                    os.unlink(p_)
                    gone_other += 1
        args = []
        frules = []
        for p in case["f"]:
            if filterref.classify(p.encode("latin-1")) is None:
                continue
            args += ["-f", p.encode("latin-1")]
            frules.append((1, p.encode("latin-1")))
        dsel = [d for d in case["d"] if d in w.arr.disk_names()]
        for d in dsel:
            args += ["-d", d]
        if case["m"]:
            args.append("-m")
        pre = w.arr.snap_data()
        fx = w.cmd("fix", args)
        if fx.timed_out:
            return Outcome(ok=True, inconclusive=True)
        post = w.arr.snap_data()
        nsel = nunsel = 0
        for (dn, rel) in sorted(missing):
            sel = True
            if frules:
                sel = sel and filterref.file_verdict(frules, rel) > 0
            if dsel:
                sel = sel and dn in dsel
            e = post[dn].get(rel)
            if sel:
                nsel += 1
                if e is None or e[1] != snap[dn][rel][1]:
                    return Outcome(ok=False, why="fix %r did not restore the selected missing file %s/%r" % (args, dn, rel))
            else:
                nunsel += 1
                if e is not None:
                    return Outcome(ok=False, why="fix %r restored %s/%r which the options do not select" % (args, dn, rel))
        for dn in w.arr.disk_names():
            for rel, e in treecmp.user_entries(pre[dn]).items():
                if e[0] == "f":
                    b = post[dn].get(rel)
                    if b is None or b[1] != e[1] or b[3] != e[3]:
                        return Outcome(ok=False, why="fix %r modified %s/%r which was present and intact" % (args, dn, rel))
        # nothing outside the selection is written: links and empty directories that fix re-created
        only_file_patterns = bool(frules) and all(not pat.endswith(b"/") for _, pat in frules)
        for dn in w.arr.disk_names():
            created = [rel for rel in post[dn] if rel not in pre[dn]]
            kept = set(rel for rel in created if post[dn][rel][0] in ("f", "l"))
            for rel in created:
                e = post[dn][rel]
                if e[0] == "l":
                    sel = (not frules or filterref.file_verdict(frules, rel) > 0) and (not dsel or dn in dsel)
                    if not sel:
                        return Outcome(ok=False, why="fix %r re-created the link %s/%r which the options do not select" % (args, dn, rel))
                elif e[0] == "d":
                    if any(k.startswith(rel + b"/") for k in kept):
                        continue   # an ancestor of something fix restored
                    if (dsel and dn not in dsel) or (only_file_patterns and not any(k.startswith(rel + b"/") for k in created)):
                        return Outcome(ok=False, why="fix %r re-created the empty directory %s/%r which the options do not select" % (args, dn, rel))
        if gone_other:
            pass
        fp = hashlib.sha1(json.dumps(case, sort_keys=True).encode()).hexdigest()[:16]
        sample = {"options": [a if isinstance(a, str) else a.decode("latin-1") for a in args], "missing": len(missing), "selected": nsel, "unselected": nunsel}
        return Outcome(ok=True, fp=fp, nontrivial=nsel > 0 and nunsel > 0, classes=["selection " + " ".join(sorted(set(a for a in args if isinstance(a, str) and a.startswith("-"))))], sample=sample)
    finally:
        w.destroy()


def run_case(case, ctx):
    if case["kind"] == "select":
        return run_select(case, ctx)
    return run_rules(case, ctx)
