/* libverifshim.so - LD_PRELOAD fault / crash / clock / jitter / trace shim.
 *
 * Acts only on paths below $VERIF_ROOT (and never on $VERIF_ROOT/logs).  Everything is driven
 * by environment variables so that a case is a pure function of its replay file:
 *
 *  VERIF_TRACE=file        append one line per in-scope call: seq tid op path off len ret
 *  VERIF_KILL=k:mode       at the k-th (0-based) state-changing call _exit(137)
 *                          mode: before | after | short (write/pwrite: half the bytes, then die)
 *  VERIF_SIGNAL=op:substr:n:signo    raise(signo) just before the n-th (1-based) matching call
 *  VERIF_FAIL=op:substr:n:errno[,..] the n-th (1-based) matching call fails with errno, not performed
 *                                    n may be "a-b" for a range, or "*" for every call
 *  VERIF_PAUSE=k:file      block at the k-th state-changing call until `file` exists
 *  VERIF_PAUSE_OPEN=k:file block at the k-th read-only open() of a file whose name starts with "content" (snapraid reads its content
 *                          files only after taking the lock) until `file` exists; a pause point for commands that change no state
 *  VERIF_CLOCK=t           time(), gettimeofday(), clock_gettime(CLOCK_REALTIME) return t
 *  VERIF_URANDOM=seed      open("/dev/urandom") yields a seeded stream
 *  VERIF_JITTER=seed:permille:maxus  random yields/sleeps before in-scope pread/pwrite
 *  VERIF_SLOW=substr:usec            sleep usec before every pwrite to a path containing substr (makes one writer thread lag)
 *  VERIF_COUNT=file        at exit write the number of state-changing calls seen
 *
 * State-changing calls: creat(open with O_CREAT|O_TRUNC), write, pwrite, rename, ftruncate,
 * fallocate, fsync, remove/unlink, rmdir, mkdir, link, symlink, futimens, utimensat.
 */
#define _GNU_SOURCE
#include <dlfcn.h>
#include <errno.h>
#include <fcntl.h>
#include <pthread.h>
#include <sched.h>
#include <signal.h>
#include <stdarg.h>
#include <stdint.h>
#include <stdio.h>
#include <stdlib.h>
#include <string.h>
#include <sys/mman.h>
#include <sys/stat.h>
#include <sys/syscall.h>
#include <sys/time.h>
#include <sys/types.h>
#include <time.h>
#include <unistd.h>

#define MAXFD 4096
#define MAXFAIL 16

static char *root;
static size_t rootlen;
static int trace_fd = -1;
static long kill_k = -1;
static int kill_mode; /* 0 before 1 after 2 short */
static long pause_k = -1;
static char *pause_file;
static long pause_open_k = -1, ro_open_count;
static long clock_t0 = -1;
static long urandom_seed = -1;
static long jitter_seed = -1, jitter_permille, jitter_maxus;
static char slow_sub[128];
static long slow_us;
static char *count_file;

struct failspec { char op[16]; char sub[128]; long lo, hi; int err; long seen; };
static struct failspec fails[MAXFAIL];
static int nfails;
static struct failspec sig; /* err = signo */
static int has_sig;

static char *fdpath[MAXFD];
static pthread_mutex_t mu = PTHREAD_MUTEX_INITIALIZER;
static long seq, sc_count;
static int inited;

static int (*r_open)(const char *, int, ...);
static int (*r_open64)(const char *, int, ...);
static int (*r_close)(int);
static ssize_t (*r_pread)(int, void *, size_t, off_t);
static ssize_t (*r_pwrite)(int, const void *, size_t, off_t);
static ssize_t (*r_read)(int, void *, size_t);
static ssize_t (*r_write)(int, const void *, size_t);
static int (*r_rename)(const char *, const char *);
static int (*r_remove)(const char *);
static int (*r_unlink)(const char *);
static int (*r_rmdir)(const char *);
static int (*r_mkdir)(const char *, mode_t);
static int (*r_link)(const char *, const char *);
static int (*r_symlink)(const char *, const char *);
static int (*r_ftruncate)(int, off_t);
static int (*r_fallocate)(int, int, off_t, off_t);
static int (*r_fsync)(int);
static int (*r_futimens)(int, const struct timespec[2]);
static int (*r_utimensat)(int, const char *, const struct timespec[2], int);
static int (*r_flock)(int, int);
static time_t (*r_time)(time_t *);
static int (*r_gettimeofday)(struct timeval *, void *);
static int (*r_clock_gettime)(clockid_t, struct timespec *);

static void parse_spec(const char *s, struct failspec *f)
{
	/* op:substr:n:err */
	char buf[512];
	char *p, *q;
	strncpy(buf, s, sizeof(buf) - 1);
	buf[sizeof(buf) - 1] = 0;
	p = buf;
	q = strchr(p, ':'); if (!q) return; *q = 0; strncpy(f->op, p, sizeof(f->op) - 1); p = q + 1;
	q = strchr(p, ':'); if (!q) return; *q = 0; strncpy(f->sub, p, sizeof(f->sub) - 1); p = q + 1;
	q = strchr(p, ':'); if (!q) return; *q = 0;
	if (p[0] == '*') { f->lo = 1; f->hi = 1L << 60; }
	else if (strchr(p, '-')) { sscanf(p, "%ld-%ld", &f->lo, &f->hi); }
	else { f->lo = f->hi = atol(p); }
	f->err = atoi(q + 1);
	f->seen = 0;
}

static void init(void)
{
	const char *e;
	if (inited) return;
	inited = 1;
	r_open = dlsym(RTLD_NEXT, "open");
	r_open64 = dlsym(RTLD_NEXT, "open64");
	r_close = dlsym(RTLD_NEXT, "close");
	r_pread = dlsym(RTLD_NEXT, "pread");
	r_pwrite = dlsym(RTLD_NEXT, "pwrite");
	r_read = dlsym(RTLD_NEXT, "read");
	r_write = dlsym(RTLD_NEXT, "write");
	r_rename = dlsym(RTLD_NEXT, "rename");
	r_remove = dlsym(RTLD_NEXT, "remove");
	r_unlink = dlsym(RTLD_NEXT, "unlink");
	r_rmdir = dlsym(RTLD_NEXT, "rmdir");
	r_mkdir = dlsym(RTLD_NEXT, "mkdir");
	r_link = dlsym(RTLD_NEXT, "link");
	r_symlink = dlsym(RTLD_NEXT, "symlink");
	r_ftruncate = dlsym(RTLD_NEXT, "ftruncate");
	r_fallocate = dlsym(RTLD_NEXT, "fallocate");
	r_fsync = dlsym(RTLD_NEXT, "fsync");
	r_futimens = dlsym(RTLD_NEXT, "futimens");
	r_utimensat = dlsym(RTLD_NEXT, "utimensat");
	r_flock = dlsym(RTLD_NEXT, "flock");
	r_time = dlsym(RTLD_NEXT, "time");
	r_gettimeofday = dlsym(RTLD_NEXT, "gettimeofday");
	r_clock_gettime = dlsym(RTLD_NEXT, "clock_gettime");
	e = getenv("VERIF_ROOT");
	if (e && *e) { root = strdup(e); rootlen = strlen(root); }
	e = getenv("VERIF_TRACE");
	if (e && *e) trace_fd = r_open(e, O_WRONLY | O_CREAT | O_APPEND | O_CLOEXEC, 0644);
	if (trace_fd >= 0 && trace_fd < 100) { int n = fcntl(trace_fd, F_DUPFD_CLOEXEC, 1000); if (n >= 0) { r_close(trace_fd); trace_fd = n; } }
	e = getenv("VERIF_KILL");
	if (e && *e) {
		kill_k = atol(e);
		if (strstr(e, ":after")) kill_mode = 1;
		else if (strstr(e, ":short")) kill_mode = 2;
	}
	e = getenv("VERIF_PAUSE");
	if (e && *e) { const char *c = strchr(e, ':'); pause_k = atol(e); if (c) pause_file = strdup(c + 1); }
	e = getenv("VERIF_PAUSE_OPEN");
	if (e && *e) { const char *c = strchr(e, ':'); pause_open_k = atol(e); if (c) pause_file = strdup(c + 1); }
	e = getenv("VERIF_CLOCK");
	if (e && *e) clock_t0 = atol(e);
	e = getenv("VERIF_URANDOM");
	if (e && *e) urandom_seed = atol(e);
	e = getenv("VERIF_JITTER");
	if (e && *e) sscanf(e, "%ld:%ld:%ld", &jitter_seed, &jitter_permille, &jitter_maxus);
	e = getenv("VERIF_SLOW");
	if (e) { const char *c = strrchr(e, ':'); if (c && (size_t)(c - e) < sizeof(slow_sub)) { memcpy(slow_sub, e, (size_t)(c - e)); slow_sub[c - e] = 0; slow_us = atol(c + 1); } }
	e = getenv("VERIF_COUNT");
	if (e && *e) count_file = strdup(e);
	e = getenv("VERIF_FAIL");
	if (e && *e) {
		char *dup = strdup(e), *tok, *save = 0;
		for (tok = strtok_r(dup, ",", &save); tok && nfails < MAXFAIL; tok = strtok_r(0, ",", &save))
			parse_spec(tok, &fails[nfails++]);
		free(dup);
	}
	e = getenv("VERIF_SIGNAL");
	if (e && *e) { parse_spec(e, &sig); has_sig = 1; }
}

__attribute__((constructor)) static void ctor(void) { init(); }

__attribute__((destructor)) static void dtor(void)
{
	if (count_file) {
		int fd = r_open(count_file, O_WRONLY | O_CREAT | O_TRUNC, 0644);
		if (fd >= 0) { char b[64]; int n = snprintf(b, sizeof b, "%ld\n", sc_count); syscall(SYS_write, fd, b, n); r_close(fd); }
	}
}

static int in_scope(const char *p)
{
	if (!root || !p) return 0;
	if (strncmp(p, root, rootlen) != 0) return 0;
	if (strncmp(p + rootlen, "/logs", 5) == 0) return 0;
	return 1;
}

static const char *path_of(int fd)
{
	if (fd < 0 || fd >= MAXFD) return 0;
	return fdpath[fd];
}

static void esc_path(const char *p, char *out, size_t n)
{
	size_t i = 0;
	for (; *p && i + 5 < n; ++p) {
		unsigned char c = (unsigned char)*p;
		if (c <= 32 || c == '%' || c >= 127) i += snprintf(out + i, n - i, "%%%02x", c);
		else out[i++] = c;
	}
	out[i] = 0;
}

static void trace_s(long myseq, const char *op, const char *path, long long off, long long len, long long ret)
{
	char line[6000], ep[5200];
	int n;
	if (trace_fd < 0) return;
	esc_path(path ? path + rootlen : "-", ep, sizeof ep);
	n = snprintf(line, sizeof line, "%ld %ld %s %s %lld %lld %lld\n", myseq, (long)syscall(SYS_gettid), op, ep, off, len, ret);
	syscall(SYS_write, trace_fd, line, n);
}

static __thread long cur_seq;
#define trace(op, path, off, len, ret) trace_s(cur_seq, op, path, off, len, ret)

/* returns errno to inject (0 = none) */
static int check_fail(const char *op, const char *path)
{
	int i, r = 0;
	for (i = 0; i < nfails; ++i) {
		struct failspec *f = &fails[i];
		if (strcmp(f->op, op) != 0) continue;
		if (f->sub[0] && !strstr(path, f->sub)) continue;
		++f->seen;
		if (f->seen >= f->lo && f->seen <= f->hi) r = f->err;
	}
	return r;
}

static void check_signal(const char *op, const char *path)
{
	if (!has_sig) return;
	if (strcmp(sig.op, op) != 0) return;
	if (sig.sub[0] && !strstr(path, sig.sub)) return;
	++sig.seen;
	if (sig.seen >= sig.lo && sig.seen <= sig.hi) {
		pthread_mutex_unlock(&mu);
		raise(sig.err);
		pthread_mutex_lock(&mu);
	}
}

static void jitter(void)
{
	static __thread uint64_t st;
	static long tcount;
	if (jitter_seed < 0) return;
	if (!st) { long t = __sync_add_and_fetch(&tcount, 1); st = (uint64_t)jitter_seed * 0x9E3779B97F4A7C15ull + (uint64_t)t * 0xD1B54A32D192ED03ull + 1; }
	st ^= st << 13; st ^= st >> 7; st ^= st << 17;
	if ((long)(st % 1000) < jitter_permille) {
		uint64_t r = (st >> 20);
		if (r & 1) sched_yield();
		else if (jitter_maxus > 0) usleep((useconds_t)(r % (uint64_t)jitter_maxus));
	}
}

static int is_content_name(const char *path)
{
	const char *b = strrchr(path, '/');
	b = b ? b + 1 : path;
	return strncmp(b, "content", 7) == 0;
}

/* pre-hook for a state-changing call; returns: 0 proceed, 1 proceed then die, 2 short write then die */
static volatile int paused;

static int sc_pre(const char *op, const char *path)
{
	long k;
	/* while one thread is held at the pause point no other thread of this process changes any state */
	while (paused) { pthread_mutex_unlock(&mu); usleep(500); pthread_mutex_lock(&mu); }
	k = sc_count++;
	(void)op; (void)path;
	if (pause_k >= 0 && k == pause_k && pause_file) {
		struct stat st;
		char wp[4200];
		int wf;
		paused = 1;
		pthread_mutex_unlock(&mu);
		snprintf(wp, sizeof wp, "%s.waiting", pause_file);
		wf = r_open(wp, O_WRONLY | O_CREAT, 0644);
		if (wf >= 0) r_close(wf);
		while (syscall(SYS_stat, pause_file, &st) != 0) usleep(1000);
		pthread_mutex_lock(&mu);
		paused = 0;
	}
	if (kill_k >= 0 && k == kill_k) {
		if (kill_mode == 0) { trace("KILL-before", path, 0, 0, k); _exit(137); }
		return kill_mode;
	}
	return 0;
}

static void die_after(const char *path, long k) { trace("KILL-after", path, 0, 0, k); _exit(137); }

/* ------------------------------------------------------------------ interposers */
static int do_open(int is64, const char *path, int flags, mode_t mode)
{
	int fd, scope, act = 0, fe;
	init();
	if (urandom_seed >= 0 && path && strcmp(path, "/dev/urandom") == 0) {
		int m = (int)syscall(SYS_memfd_create, "verif-urandom", 0);
		if (m >= 0) {
			uint64_t s = (uint64_t)urandom_seed * 0x9E3779B97F4A7C15ull + 12345; unsigned char b[4096]; int i;
			for (i = 0; i < 4096; ++i) { s ^= s << 13; s ^= s >> 7; s ^= s << 17; b[i] = (unsigned char)(s >> 24); }
			syscall(SYS_write, m, b, sizeof b);
			lseek(m, 0, SEEK_SET);
			return m;
		}
	}
	scope = in_scope(path);
	if (!scope) return is64 ? r_open64(path, flags, mode) : r_open(path, flags, mode);
	pthread_mutex_lock(&mu);
	cur_seq = ++seq;
	fe = check_fail("open", path);
	if (fe) { trace("open-FAIL", path, flags, 0, -fe); pthread_mutex_unlock(&mu); errno = fe; return -1; }
	if (flags & (O_CREAT | O_TRUNC)) {
		check_signal("creat", path);
		act = sc_pre("creat", path);
	} else if (pause_open_k >= 0 && pause_file && (flags & O_ACCMODE) == O_RDONLY && is_content_name(path) && ro_open_count++ == pause_open_k) {
		struct stat st;
		char wp[4200];
		int wf;
		pthread_mutex_unlock(&mu);
		snprintf(wp, sizeof wp, "%s.waiting", pause_file);
		wf = r_open(wp, O_WRONLY | O_CREAT, 0644);
		if (wf >= 0) r_close(wf);
		while (syscall(SYS_stat, pause_file, &st) != 0) usleep(1000);
		pthread_mutex_lock(&mu);
	}
	pthread_mutex_unlock(&mu);
	fd = is64 ? r_open64(path, flags, mode) : r_open(path, flags, mode);
	pthread_mutex_lock(&mu);
	if (fd >= 0 && fd < MAXFD) { free(fdpath[fd]); fdpath[fd] = strdup(path); }
	trace((flags & (O_CREAT | O_TRUNC)) ? "creat" : "open", path, flags, 0, fd);
	if (act) die_after(path, sc_count - 1);
	pthread_mutex_unlock(&mu);
	return fd;
}

int open(const char *path, int flags, ...)
{
	mode_t mode = 0;
	if (flags & (O_CREAT | O_TMPFILE)) { va_list ap; va_start(ap, flags); mode = va_arg(ap, mode_t); va_end(ap); }
	return do_open(0, path, flags, mode);
}

int open64(const char *path, int flags, ...)
{
	mode_t mode = 0;
	if (flags & (O_CREAT | O_TMPFILE)) { va_list ap; va_start(ap, flags); mode = va_arg(ap, mode_t); va_end(ap); }
	return do_open(1, path, flags, mode);
}

int close(int fd)
{
	const char *p;
	int r;
	init();
	pthread_mutex_lock(&mu);
	p = path_of(fd);
	if (p) { cur_seq = ++seq; trace("close", p, 0, 0, 0); free(fdpath[fd]); fdpath[fd] = 0; }
	pthread_mutex_unlock(&mu);
	r = r_close(fd);
	return r;
}

ssize_t pread(int fd, void *buf, size_t n, off_t off)
{
	const char *p;
	ssize_t r;
	int fe;
	init();
	p = path_of(fd);
	if (!p) return r_pread(fd, buf, n, off);
	jitter();
	pthread_mutex_lock(&mu);
	cur_seq = ++seq;
	check_signal("pread", p);
	fe = check_fail("pread", p);
	if (fe) { trace("pread-FAIL", p, off, n, -fe); pthread_mutex_unlock(&mu); errno = fe; return -1; }
	pthread_mutex_unlock(&mu);
	r = r_pread(fd, buf, n, off);
	pthread_mutex_lock(&mu);
	trace("pread", p, off, n, r);
	pthread_mutex_unlock(&mu);
	return r;
}
ssize_t pread64(int fd, void *buf, size_t n, off_t off) { return pread(fd, buf, n, off); }

ssize_t pwrite(int fd, const void *buf, size_t n, off_t off)
{
	const char *p;
	ssize_t r;
	int fe, act;
	init();
	p = path_of(fd);
	if (!p) return r_pwrite(fd, buf, n, off);
	jitter();
	if (slow_us > 0 && strstr(p, slow_sub)) usleep((useconds_t)slow_us);
	pthread_mutex_lock(&mu);
	cur_seq = ++seq;
	check_signal("pwrite", p);
	fe = check_fail("pwrite", p);
	if (fe) { trace("pwrite-FAIL", p, off, n, -fe); pthread_mutex_unlock(&mu); errno = fe; return -1; }
	act = sc_pre("pwrite", p);
	if (act == 2) { r_pwrite(fd, buf, n / 2, off); trace("KILL-short", p, off, n / 2, sc_count - 1); _exit(137); }
	pthread_mutex_unlock(&mu);
	r = r_pwrite(fd, buf, n, off);
	pthread_mutex_lock(&mu);
	trace("pwrite", p, off, n, r);
	if (act) die_after(p, sc_count - 1);
	pthread_mutex_unlock(&mu);
	return r;
}
ssize_t pwrite64(int fd, const void *buf, size_t n, off_t off) { return pwrite(fd, buf, n, off); }

ssize_t read(int fd, void *buf, size_t n)
{
	const char *p;
	ssize_t r;
	int fe;
	init();
	p = path_of(fd);
	if (!p) return r_read(fd, buf, n);
	pthread_mutex_lock(&mu);
	cur_seq = ++seq;
	fe = check_fail("read", p);
	if (fe) { trace("read-FAIL", p, 0, n, -fe); pthread_mutex_unlock(&mu); errno = fe; return -1; }
	pthread_mutex_unlock(&mu);
	r = r_read(fd, buf, n);
	pthread_mutex_lock(&mu);
	trace("read", p, 0, n, r);
	pthread_mutex_unlock(&mu);
	return r;
}

ssize_t write(int fd, const void *buf, size_t n)
{
	const char *p;
	ssize_t r;
	int fe, act;
	init();
	p = path_of(fd);
	if (!p) return r_write(fd, buf, n);
	pthread_mutex_lock(&mu);
	cur_seq = ++seq;
	check_signal("write", p);
	fe = check_fail("write", p);
	if (fe) { trace("write-FAIL", p, 0, n, -fe); pthread_mutex_unlock(&mu); errno = fe; return -1; }
	act = sc_pre("write", p);
	if (act == 2) { r_write(fd, buf, n / 2); trace("KILL-short", p, 0, n / 2, sc_count - 1); _exit(137); }
	pthread_mutex_unlock(&mu);
	r = r_write(fd, buf, n);
	pthread_mutex_lock(&mu);
	trace("write", p, 0, n, r);
	if (act) die_after(p, sc_count - 1);
	pthread_mutex_unlock(&mu);
	return r;
}

#define PATH_OP(NAME, OPSTR, CALL) \
	{ \
		int r, fe, act; \
		init(); \
		if (!in_scope(path)) return CALL; \
		pthread_mutex_lock(&mu); \
		cur_seq = ++seq; \
		check_signal(OPSTR, path); \
		fe = check_fail(OPSTR, path); \
		if (fe) { trace(OPSTR "-FAIL", path, 0, 0, -fe); pthread_mutex_unlock(&mu); errno = fe; return -1; } \
		act = sc_pre(OPSTR, path); \
		pthread_mutex_unlock(&mu); \
		r = CALL; \
		pthread_mutex_lock(&mu); \
		trace(OPSTR, path, 0, 0, r); \
		if (act) die_after(path, sc_count - 1); \
		pthread_mutex_unlock(&mu); \
		return r; \
	}

int rename(const char *path, const char *to)
{
	int r, fe, act;
	init();
	if (!in_scope(path) && !in_scope(to)) return r_rename(path, to);
	pthread_mutex_lock(&mu);
	cur_seq = ++seq;
	check_signal("rename", to);
	fe = check_fail("rename", to);
	if (fe) { trace("rename-FAIL", to, 0, 0, -fe); pthread_mutex_unlock(&mu); errno = fe; return -1; }
	act = sc_pre("rename", to);
	pthread_mutex_unlock(&mu);
	r = r_rename(path, to);
	pthread_mutex_lock(&mu);
	trace("rename-from", in_scope(path) ? path : 0, 0, 0, r);
	trace("rename", in_scope(to) ? to : 0, 0, 0, r);
	if (act) die_after(to, sc_count - 1);
	pthread_mutex_unlock(&mu);
	return r;
}
int remove(const char *path) PATH_OP(remove, "remove", r_remove(path))
int unlink(const char *path) PATH_OP(unlink, "remove", r_unlink(path))
int rmdir(const char *path) PATH_OP(rmdir, "rmdir", r_rmdir(path))
int mkdir(const char *path, mode_t m) PATH_OP(mkdir, "mkdir", r_mkdir(path, m))
int symlink(const char *target, const char *path) PATH_OP(symlink, "symlink", r_symlink(target, path))
int link(const char *from, const char *path) PATH_OP(link, "link", r_link(from, path))
int utimensat(int dfd, const char *path, const struct timespec ts[2], int fl) PATH_OP(utimensat, "utimens", r_utimensat(dfd, path, ts, fl))

#define FD_OP(OPSTR, CALL, OFF, LEN) \
	{ \
		const char *p; \
		int r, fe, act; \
		init(); \
		p = path_of(fd); \
		if (!p) return CALL; \
		pthread_mutex_lock(&mu); \
		cur_seq = ++seq; \
		check_signal(OPSTR, p); \
		fe = check_fail(OPSTR, p); \
		if (fe) { trace(OPSTR "-FAIL", p, OFF, LEN, -fe); pthread_mutex_unlock(&mu); errno = fe; return -1; } \
		act = sc_pre(OPSTR, p); \
		pthread_mutex_unlock(&mu); \
		r = CALL; \
		pthread_mutex_lock(&mu); \
		trace(OPSTR, p, OFF, LEN, r); \
		if (act) die_after(p, sc_count - 1); \
		pthread_mutex_unlock(&mu); \
		return r; \
	}

int ftruncate(int fd, off_t len) FD_OP("ftruncate", r_ftruncate(fd, len), len, 0)
int ftruncate64(int fd, off_t len) FD_OP("ftruncate", r_ftruncate(fd, len), len, 0)
int fallocate(int fd, int mode, off_t off, off_t len) FD_OP("fallocate", r_fallocate(fd, mode, off, len), off, len)
int fallocate64(int fd, int mode, off_t off, off_t len) FD_OP("fallocate", r_fallocate(fd, mode, off, len), off, len)
int fsync(int fd) FD_OP("fsync", r_fsync(fd), 0, 0)
int futimens(int fd, const struct timespec ts[2]) FD_OP("utimens", r_futimens(fd, ts), 0, 0)

int flock(int fd, int op)
{
	const char *p;
	int r;
	init();
	p = path_of(fd);
	r = r_flock(fd, op);
	if (p) { pthread_mutex_lock(&mu); cur_seq = ++seq; trace("flock", p, op, 0, r); pthread_mutex_unlock(&mu); }
	return r;
}

time_t time(time_t *t)
{
	init();
	if (clock_t0 >= 0) { if (t) *t = clock_t0; return clock_t0; }
	return r_time(t);
}

int gettimeofday(struct timeval *tv, void *tz)
{
	init();
	if (clock_t0 >= 0 && tv) { tv->tv_sec = clock_t0; tv->tv_usec = 0; return 0; }
	return r_gettimeofday(tv, tz);
}

int clock_gettime(clockid_t id, struct timespec *ts)
{
	init();
	if (clock_t0 >= 0 && id == CLOCK_REALTIME && ts) { ts->tv_sec = clock_t0; ts->tv_nsec = 0; return 0; }
	return r_clock_gettime(id, ts);
}
