/* liboracle: reference implementations used as ORACLES by the python checks.
 * Written from the published algorithm descriptions (MurmurHash3 x86_128 by
 * A. Appleby, SpookyHash V2 by B. Jenkins without the short-message path,
 * CRC-32C Castagnoli), with the 128-bit seeding SnapRAID documents.  It does
 * not include or link any file of the repository under test; it is validated
 * at setup against vectors produced by the pinned reference build
 * (golden/vectors) and afterwards serves as the model for random inputs. */
#include <stdint.h>
#include <stddef.h>
#include <string.h>

static uint32_t rd32(const uint8_t *p) { return (uint32_t)p[0] | (uint32_t)p[1] << 8 | (uint32_t)p[2] << 16 | (uint32_t)p[3] << 24; }
static uint64_t rd64(const uint8_t *p) { return (uint64_t)rd32(p) | (uint64_t)rd32(p + 4) << 32; }
static void wr32(uint8_t *p, uint32_t v) { p[0] = v; p[1] = v >> 8; p[2] = v >> 16; p[3] = v >> 24; }
static void wr64(uint8_t *p, uint64_t v) { wr32(p, (uint32_t)v); wr32(p + 4, (uint32_t)(v >> 32)); }
static uint32_t rol32(uint32_t x, int r) { return (x << r) | (x >> (32 - r)); }
static uint64_t rol64(uint64_t x, int r) { return (x << r) | (x >> (64 - r)); }

static uint32_t fmix(uint32_t h)
{
	h ^= h >> 16; h *= 0x85ebca6bu; h ^= h >> 13; h *= 0xc2b2ae35u; h ^= h >> 16;
	return h;
}

void o_murmur3(const uint8_t *data, size_t n, const uint8_t *seed, uint8_t *out)
{
	static const uint32_t C[4] = {0x239b961bu, 0xab0e9789u, 0x38b34ae5u, 0xa1e38b93u};
	static const int RK[4] = {15, 16, 17, 18};
	static const int RH[4] = {19, 17, 15, 13};
	static const uint32_t ADD[4] = {0x561ccd1bu, 0x0bcaa747u, 0x96cd1c35u, 0x32ac3b17u};
	uint32_t h[4];
	size_t nb = n / 16, i;
	int j;
	for (j = 0; j < 4; ++j) h[j] = rd32(seed + 4 * j);
	for (i = 0; i < nb; ++i) {
		for (j = 0; j < 4; ++j) {
			uint32_t k = rd32(data + 16 * i + 4 * j);
			k *= C[j]; k = rol32(k, RK[j]); k *= C[(j + 1) & 3];
			h[j] ^= k;
			h[j] = rol32(h[j], RH[j]); h[j] += h[(j + 1) & 3]; h[j] = h[j] * 5 + ADD[j];
		}
	}
	{
		const uint8_t *t = data + 16 * nb;
		size_t rem = n & 15;
		uint32_t k[4] = {0, 0, 0, 0};
		for (i = 0; i < rem; ++i) k[i / 4] |= (uint32_t)t[i] << (8 * (i & 3));
		for (j = 3; j >= 0; --j) {
			if (rem > (size_t)(4 * j)) {
				uint32_t x = k[j];
				x *= C[j]; x = rol32(x, RK[j]); x *= C[(j + 1) & 3];
				h[j] ^= x;
			}
		}
	}
	for (j = 0; j < 4; ++j) h[j] ^= (uint32_t)n;
	h[0] += h[1]; h[0] += h[2]; h[0] += h[3];
	h[1] += h[0]; h[2] += h[0]; h[3] += h[0];
	for (j = 0; j < 4; ++j) h[j] = fmix(h[j]);
	h[0] += h[1]; h[0] += h[2]; h[0] += h[3];
	h[1] += h[0]; h[2] += h[0]; h[3] += h[0];
	for (j = 0; j < 4; ++j) wr32(out + 4 * j, h[j]);
}

void o_spooky2(const uint8_t *data, size_t n, const uint8_t *seed, uint8_t *out)
{
	static const int RM[12] = {11, 32, 43, 31, 17, 28, 39, 57, 55, 54, 22, 46};
	static const int RE[12] = {44, 15, 34, 21, 38, 33, 10, 13, 38, 53, 42, 54};
	uint64_t s[12], d[12];
	uint8_t buf[96];
	size_t nb = n / 96, i, rem;
	int j, r;
	uint64_t a = rd64(seed), b = rd64(seed + 8);
	for (j = 0; j < 12; j += 3) { s[j] = a; s[j + 1] = b; s[j + 2] = 0xdeadbeefdeadbeefULL; }
	for (i = 0; i < nb; ++i) {
		for (j = 0; j < 12; ++j) d[j] = rd64(data + 96 * i + 8 * j);
		for (j = 0; j < 12; ++j) {
			s[j] += d[j];
			s[(j + 2) % 12] ^= s[(j + 10) % 12];
			s[(j + 11) % 12] ^= s[j];
			s[j] = rol64(s[j], RM[j]);
			s[(j + 11) % 12] += s[(j + 1) % 12];
		}
	}
	rem = n - 96 * nb;
	memset(buf, 0, sizeof buf);
	memcpy(buf, data + 96 * nb, rem);
	buf[95] = (uint8_t)rem;
	for (j = 0; j < 12; ++j) s[j] += rd64(buf + 8 * j);
	for (r = 0; r < 3; ++r) {
		for (j = 0; j < 12; ++j) {
			/* h11 += h1; h2 ^= h11; h1 = rot(h1) ... shifted by j */
			s[(j + 11) % 12] += s[(j + 1) % 12];
			s[(j + 2) % 12] ^= s[(j + 11) % 12];
			s[(j + 1) % 12] = rol64(s[(j + 1) % 12], RE[j]);
		}
	}
	wr64(out, s[0]);
	wr64(out + 8, s[1]);
}

uint32_t o_crc32c(uint32_t crc, const uint8_t *p, size_t n)
{
	/* bitwise, reflected polynomial 0x82F63B78, standard init/final inversion */
	size_t i;
	int k;
	crc = ~crc;
	for (i = 0; i < n; ++i) {
		crc ^= p[i];
		for (k = 0; k < 8; ++k)
			crc = (crc >> 1) ^ (0x82F63B78u & (0u - (crc & 1)));
	}
	return ~crc;
}

/* table driven variant for speed on big content files */
static uint32_t T[256];
static int t_init;
uint32_t o_crc32c_fast(uint32_t crc, const uint8_t *p, size_t n)
{
	size_t i;
	if (!t_init) {
		uint32_t c; int k, b;
		for (b = 0; b < 256; ++b) { c = b; for (k = 0; k < 8; ++k) c = (c >> 1) ^ (0x82F63B78u & (0u - (c & 1))); T[b] = c; }
		t_init = 1;
	}
	crc = ~crc;
	for (i = 0; i < n; ++i) crc = T[(crc ^ p[i]) & 0xff] ^ (crc >> 8);
	return ~crc;
}

/* hash many blocks at once: kind 0 murmur3, 1 spooky2 */
void o_hash_blocks(int kind, const uint8_t *seed, const uint8_t *data, size_t total, size_t bs, uint8_t *out)
{
	size_t off = 0, i = 0;
	while (off < total) {
		size_t n = total - off < bs ? total - off : bs;
		if (kind == 0) o_murmur3(data + off, n, seed, out + 16 * i);
		else o_spooky2(data + off, n, seed, out + 16 * i);
		off += n; ++i;
	}
}
