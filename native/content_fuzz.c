/* content_fuzz: libFuzzer target around state_read() of the tree under test (C09, clause "damaged content files
 * are rejected and never cause memory-unsafe behaviour").
 *
 * The input is the whole content file.  It is written to the content path of a fixed configuration
 * (3 data disks, 2 parity levels, block size 1 KiB, hash size 16) and loaded in-process by state_read().
 * The loader's error exits (exit(), os_abort(), assert) are turned into a longjmp back to the target through
 * linker wrapping; everything else (ASan / UBSan report, SIGSEGV, ...) is a crash of the target = a violation.
 *
 * Semantic oracle inside the target: a file that LOADS must carry a valid CRC-32C trailer over all preceding
 * bytes, computed here bit by bit (not with the repository's code).  A loaded file with a wrong trailer is a
 * damaged file that was accepted -> trap.
 *
 * Counters are appended to $VERIF_FUZZ_STATS (one line per process) at exit and before a trap.
 */
#include "portable.h"
#include "support.h"
#include "elem.h"
#include "state.h"
#include "util.h"
#include "raid/raid.h"
#include <setjmp.h>
#include <dirent.h>

static jmp_buf jb;
static volatile int in_target;
static __thread int this_thread_in_target; /* libFuzzer's own threads allocate too: they are never tracked */
static char root[256];
static char conf[320];
static char content[320];
static unsigned long n_exec, n_loaded, n_exit, n_abort, n_assert, n_small;

/* allocations made by an aborted load are released afterwards: the set of blocks allocated while in the target */
#define LIVE_MAX (1 << 16)
static void* live[LIVE_MAX];
static unsigned live_count;
static int live_overflow;
int __sanitizer_install_malloc_and_free_hooks(void (*malloc_hook)(const volatile void*, size_t), void (*free_hook)(const volatile void*));

static unsigned live_slot(const volatile void* p)
{
	return (unsigned)(((uintptr_t)p >> 4) * 2654435761U) & (LIVE_MAX - 1);
}

static void on_malloc(const volatile void* p, size_t size)
{
	unsigned i;
	(void)size;
	if (!this_thread_in_target || !p)
		return;
	if (live_count >= LIVE_MAX / 2) {
		live_overflow = 1;
		return;
	}
	i = live_slot(p);
	while (live[i] != 0 && live[i] != (void*)1)
		i = (i + 1) & (LIVE_MAX - 1);
	live[i] = (void*)p;
	++live_count;
}

static void on_free(const volatile void* p)
{
	unsigned i;
	if (!p || live_count == 0 || !this_thread_in_target)
		return;
	i = live_slot(p);
	while (live[i] != 0) {
		if (live[i] == (void*)p) {
			live[i] = (void*)1; /* tombstone */
			--live_count;
			return;
		}
		i = (i + 1) & (LIVE_MAX - 1);
	}
}

static void live_reset(int release)
{
	unsigned i;
	if (release && !live_overflow) {
		for (i = 0; i < LIVE_MAX; ++i) {
			void* p = live[i];
			if (p != 0 && p != (void*)1) {
				live[i] = (void*)1;
				free(p);
			}
		}
	}
	memset(live, 0, sizeof(live));
	live_count = 0;
	live_overflow = 0;
}

void __real_exit(int code);
void __wrap_exit(int code)
{
	if (this_thread_in_target)
		longjmp(jb, 1);
	__real_exit(code);
}

void __real_os_abort(void);
void __wrap_os_abort(void)
{
	if (this_thread_in_target)
		longjmp(jb, 2);
	__real_os_abort();
}

/* a failing assert() of the loader is a deliberate stop, like os_abort() */
void __assert_fail(const char* assertion, const char* file, unsigned int line, const char* function)
{
	if (this_thread_in_target)
		longjmp(jb, 3);
	fprintf(stderr, "assert failed outside the target: %s at %s:%u %s\n", assertion, file, line, function);
	abort();
}

static uint32_t ref_crc32c(const uint8_t* p, size_t n)
{
	uint32_t crc = 0xffffffffU;
	size_t i;
	int k;
	for (i = 0; i < n; ++i) {
		crc ^= p[i];
		for (k = 0; k < 8; ++k)
			crc = (crc >> 1) ^ (0x82F63B78U & (0U - (crc & 1)));
	}
	return ~crc;
}

static void dump_stats(void)
{
	const char* p = getenv("VERIF_FUZZ_STATS");
	FILE* f;
	if (!p)
		return;
	f = fopen(p, "a");
	if (!f)
		return;
	fprintf(f, "pid=%d exec=%lu loaded=%lu exit=%lu abort=%lu assert=%lu tiny=%lu\n", (int)getpid(), n_exec, n_loaded, n_exit, n_abort, n_assert, n_small);
	fclose(f);
}

static void cleanup(void)
{
	char cmd[400];
	dump_stats();
	if (root[0]) {
		snprintf(cmd, sizeof(cmd), "rm -rf '%s'", root);
		if (system(cmd) != 0) {
		}
	}
}

int LLVMFuzzerInitialize(int* argc, char*** argv)
{
	FILE* f;
	char path[400];
	int i;
	const char* base = getenv("VERIF_FUZZ_TMP");

	(void)argc;
	(void)argv;
	snprintf(root, sizeof(root), "%s/verif-cfuzz-%d", base ? base : "/dev/shm", (int)getpid());
	mkdir(root, 0700);
	for (i = 1; i <= 3; ++i) {
		snprintf(path, sizeof(path), "%s/d%d", root, i);
		mkdir(path, 0700);
	}
	snprintf(path, sizeof(path), "%s/par", root);
	mkdir(path, 0700);
	snprintf(conf, sizeof(conf), "%s/snapraid.conf", root);
	snprintf(content, sizeof(content), "%s/par/content", root);
	f = fopen(conf, "w");
	fprintf(f, "blocksize 1\nparity %s/par/parity\n2-parity %s/par/2-parity\ncontent %s\n", root, root, content);
	for (i = 1; i <= 3; ++i)
		fprintf(f, "disk d%d %s/d%d/\n", i, root, i);
	fclose(f);

	lock_init();
	os_init(0);
	raid_init();
	crc32c_init();
	msg_level = MSG_STATUS;

	__sanitizer_install_malloc_and_free_hooks(on_malloc, on_free);
	atexit(cleanup);
	return 0;
}

int LLVMFuzzerTestOneInput(const uint8_t* data, size_t size)
{
	struct snapraid_option opt;
	struct snapraid_state state;
	tommy_list filterlist_disk;
	int fd;
	int how;
	volatile int i;
	static uint64_t open_before;

	++n_exec;

	fd = open(content, O_WRONLY | O_CREAT | O_TRUNC, 0600);
	if (fd < 0 || write(fd, data, size) != (ssize_t)size) {
		fprintf(stderr, "harness: cannot write %s\n", content);
		abort();
	}
	close(fd);

	memset(&opt, 0, sizeof(opt));
	opt.io_error_limit = 100;
	opt.skip_device = 1;
	opt.skip_self = 1;
	opt.no_warnings = 1;
	opt.skip_lock = 1;
	tommy_list_init(&filterlist_disk);

	/* descriptors open now: anything else found open after an aborted load was leaked by it */
	open_before = 0;
	for (i = 0; i < 64; ++i)
		if (fcntl(i, F_GETFD) != -1)
			open_before |= 1ULL << i;

	in_target = 1;
	this_thread_in_target = 1;
	how = setjmp(jb);
	if (how == 0) {
		state_init(&state);
		state_config(&state, conf, "status", &opt, &filterlist_disk);
		state_read(&state);
		in_target = 0;
		this_thread_in_target = 0;

		/* LOADED: only a file with a valid trailer may be */
		++n_loaded;
		if (size < 4) {
			++n_small;
			/* an empty file is "no content": state_read accepts a missing/empty? never: report */
			dump_stats();
			fprintf(stderr, "ORACLE: a %zu-byte content file was loaded\n", size);
			__builtin_trap();
		} else {
			uint32_t want = ref_crc32c(data, size - 4);
			uint32_t got = data[size - 4] | (data[size - 3] << 8) | (data[size - 2] << 16) | ((uint32_t)data[size - 1] << 24);
			if (want != got) {
				dump_stats();
				fprintf(stderr, "ORACLE: content file loaded although its CRC trailer %08x is not the CRC-32C %08x of its bytes\n", got, want);
				__builtin_trap();
			}
		}
		state_done(&state);
		live_reset(0);
	} else {
		in_target = 0;
		live_reset(1);
		this_thread_in_target = 0;
		if (how == 1)
			++n_exit;
		else if (how == 2)
			++n_abort;
		else
			++n_assert;
		/* the aborted load leaks its state (leak detection is off) and possibly its descriptors */
		for (i = 0; i < 64; ++i)
			if (!(open_before & (1ULL << i)) && fcntl(i, F_GETFD) != -1)
				close(i);
	}
	return 0;
}
