/* ring_harness: drives cmdline/io.c exactly as sync.c / scrub.c do, with stub workers (C13 layer a, C08).
 *
 *   ring_harness k=v ...
 *     seed=N iomax=N nd=N np=N stripes=N mode=sync|scrub bitmap=N stop=N skipw=N delay=N outside=0|1 werr=N
 *
 * Readers fill their buffer with a pattern that depends on (position, worker) in two halves with a seeded
 * delay between them; the caller checks the complete pattern when the task is handed over and again after a
 * delay, writes the "parity" pattern, and each writer checks that pattern twice around a seeded delay.
 * A slot reused too early, a stripe delivered twice / out of order / not at all shows as a pattern or count
 * mismatch; a lost wake-up shows as a hang (alarm).  Exit: 0 ok, 1 property broken (prints why), 3 hang.
 */
#include "portable.h"
#include "support.h"
#include "elem.h"
#include "state.h"
#include "handle.h"
#include "parity.h"
#include "io.h"
#include <signal.h>

#define BS 256
#define MAXSTRIPES 4096

static unsigned long long seed;
static unsigned nd, np, stripes, delayscale, werr;
static int mode_scrub;
static unsigned char enabled[MAXSTRIPES];
static unsigned char skipw[MAXSTRIPES];
static volatile int fail;
static char why[512];
static int wcount[MAXSTRIPES][LEV_MAX];
static int rcount[MAXSTRIPES][64];
static pthread_mutex_t cmu = PTHREAD_MUTEX_INITIALIZER;

static unsigned long long mix(unsigned long long a, unsigned long long b, unsigned long long c)
{
	unsigned long long x = seed * 0x9E3779B97F4A7C15ULL + a * 0xD1B54A32D192ED03ULL + b * 0x94D049BB133111EBULL + c * 0xBF58476D1CE4E5B9ULL + 1;
	x ^= x >> 30; x *= 0xBF58476D1CE4E5B9ULL; x ^= x >> 27; x *= 0x94D049BB133111EBULL; x ^= x >> 31;
	return x;
}

static void pause_for(unsigned long long h)
{
	unsigned k = h % 8;
	if (!delayscale) return;
	if (k == 0) usleep((h >> 8) % (delayscale + 1));
	else if (k <= 2) sched_yield();
}

static unsigned char data_byte(block_off_t pos, unsigned d, unsigned k) { return (unsigned char)(mix(pos, d, k / 16) >> ((k % 8) * 8)); }
static unsigned char par_byte(block_off_t pos, unsigned l, unsigned k) { return (unsigned char)(mix(pos + 77777, l, k / 16) >> ((k % 8) * 8)); }

static void bad(const char* fmt, block_off_t pos, unsigned a, unsigned b)
{
	pthread_mutex_lock(&cmu);
	if (!fail) {
		snprintf(why, sizeof(why), fmt, pos, a, b);
		fail = 1;
	}
	pthread_mutex_unlock(&cmu);
}

static void stub_data_reader(struct snapraid_worker* worker, struct snapraid_task* task)
{
	struct snapraid_io* io = worker->io;
	unsigned d = worker - io->reader_map;
	block_off_t pos = task->position;
	unsigned k;
	pthread_mutex_lock(&cmu);
	if (pos < MAXSTRIPES) ++rcount[pos][d];
	pthread_mutex_unlock(&cmu);
	for (k = 0; k < BS / 2; ++k) task->buffer[k] = data_byte(pos, d, k);
	pause_for(mix(pos, d, 1000));
	for (k = BS / 2; k < BS; ++k) task->buffer[k] = data_byte(pos, d, k);
	task->read_size = BS;
	task->state = TASK_STATE_DONE;
}

static void stub_parity_reader(struct snapraid_worker* worker, struct snapraid_task* task)
{
	struct snapraid_io* io = worker->io;
	unsigned l = worker - io->reader_map - nd;
	block_off_t pos = task->position;
	unsigned k;
	for (k = 0; k < BS / 2; ++k) task->buffer[k] = par_byte(pos, l, k);
	pause_for(mix(pos, l, 2000));
	for (k = BS / 2; k < BS; ++k) task->buffer[k] = par_byte(pos, l, k);
	task->state = TASK_STATE_DONE;
}

static void stub_parity_writer(struct snapraid_worker* worker, struct snapraid_task* task)
{
	struct snapraid_io* io = worker->io;
	unsigned l = worker - io->writer_map;
	block_off_t pos = task->position;
	unsigned k, pass;
	for (pass = 0; pass < 2; ++pass) {
		for (k = 0; k < BS; ++k)
			if (task->buffer[k] != par_byte(pos, l, k)) {
				bad("writer of level %u+0 at stripe %u found a buffer that is not the parity computed for that stripe (pass %u)", pos, l, pass);
				break;
			}
		if (pass == 0) pause_for(mix(pos, l, 3000));
	}
	pthread_mutex_lock(&cmu);
	if (pos < MAXSTRIPES) ++wcount[pos][l];
	pthread_mutex_unlock(&cmu);
	if (werr && mix(pos, l, 4000) % werr == 0)
		task->state = TASK_STATE_IOERROR_CONTINUE;
	else
		task->state = TASK_STATE_DONE;
}

static void on_alarm(int sig)
{
	(void)sig;
	printf("HANG the io ring did not make progress for 30 s\n");
	fflush(stdout);
	_exit(3);
}

static unsigned long long arg(int argc, char** argv, const char* key, unsigned long long def)
{
	int i;
	size_t n = strlen(key);
	for (i = 1; i < argc; ++i)
		if (strncmp(argv[i], key, n) == 0 && argv[i][n] == '=')
			return strtoull(argv[i] + n + 1, 0, 10);
	return def;
}

int main(int argc, char** argv)
{
	struct snapraid_state state;
	struct snapraid_io io;
	struct snapraid_handle* handle;
	struct snapraid_parity_handle parity_handle[LEV_MAX];
	bit_vect_t* block_enabled;
	unsigned iomax, stop, i, l, j, expected_writer_errors = 0, got_writer_errors = 0;
	unsigned long long bitmap, skipseed;
	block_off_t blockcur, prev = 0;
	int first = 1;
	unsigned* waiting_map;
	unsigned waiting_mac;
	unsigned delivered = 0;
	const char* modes = "sync";

	seed = arg(argc, argv, "seed", 1);
	iomax = arg(argc, argv, "iomax", 4);
	nd = arg(argc, argv, "nd", 2);
	np = arg(argc, argv, "np", 1);
	stripes = arg(argc, argv, "stripes", 20);
	bitmap = arg(argc, argv, "bitmap", 0);
	stop = arg(argc, argv, "stop", 0);
	skipseed = arg(argc, argv, "skipw", 0);
	delayscale = arg(argc, argv, "delay", 50);
	werr = arg(argc, argv, "werr", 0);
	thread_cond_signal_outside = arg(argc, argv, "outside", 0);
	for (i = 1; i < (unsigned)argc; ++i)
		if (strcmp(argv[i], "mode=scrub") == 0) { mode_scrub = 1; modes = "scrub"; }
	if (stripes > MAXSTRIPES) stripes = MAXSTRIPES;
	if (nd > 60) nd = 60;
	if (np > LEV_MAX) np = LEV_MAX;
	(void)modes;

	signal(SIGALRM, on_alarm);
	alarm(30);

	lock_init();
	memset(&state, 0, sizeof(state));
	state.block_size = BS;
	tommy_list_init(&state.disklist);
	state.level = np;

	handle = malloc_nofail(nd * sizeof(struct snapraid_handle));
	memset(handle, 0, nd * sizeof(struct snapraid_handle));
	memset(parity_handle, 0, sizeof(parity_handle));
	for (l = 0; l < np; ++l) parity_handle[l].level = l;

	block_enabled = calloc_nofail(1, bit_vect_size(stripes));
	for (i = 0; i < stripes; ++i) {
		/* bitmap 0: all enabled; otherwise pseudo random with density from bitmap%4 */
		enabled[i] = bitmap == 0 || (mix(i, bitmap, 5000) % 4) < (1 + bitmap % 3);
		if (enabled[i]) bit_vect_set(block_enabled, i);
		skipw[i] = skipseed != 0 && (mix(i, skipseed, 6000) % 3) == 0;
	}

	if (mode_scrub)
		io_init(&io, &state, iomax, nd + np * 2, stub_data_reader, handle, nd, stub_parity_reader, 0, parity_handle, np);
	else
		io_init(&io, &state, iomax, nd + np, stub_data_reader, handle, nd, 0, stub_parity_writer, parity_handle, np);

	waiting_map = malloc_nofail((nd > np ? nd : np) * sizeof(unsigned));

	io_start(&io, 0, stripes, block_enabled);

	while (!fail) {
		void** buffer;
		int writer_error[IO_WRITER_ERROR_MAX];
		unsigned k;

		blockcur = io_read_next(&io, &buffer);
		if (blockcur >= stripes)
			break;
		alarm(30);
		if (!enabled[blockcur]) { bad("stripe %u delivered although it is not enabled (%u %u)", blockcur, 0, 0); break; }
		if (!first && blockcur <= prev) { bad("stripe %u delivered after stripe %u: not in increasing order (%u)", blockcur, prev, 0); break; }
		/* every enabled stripe between prev and blockcur must have been delivered */
		for (i = first ? 0 : prev + 1; i < blockcur; ++i)
			if (enabled[i]) { bad("enabled stripe %u was never delivered (next delivered is %u) %u", i, blockcur, 0); break; }
		first = 0;
		prev = blockcur;
		++delivered;

		for (j = 0; j < nd; ++j) {
			unsigned diskcur;
			struct snapraid_task* task = io_data_read(&io, &diskcur, waiting_map, &waiting_mac);
			if (task->position != blockcur) { bad("data task of stripe %u handed over while processing stripe %u (%u)", task->position, blockcur, 0); break; }
			if (task->state != TASK_STATE_DONE) { bad("data task of stripe %u disk %u handed over in state %u", blockcur, diskcur, (unsigned)task->state); break; }
			if (task->buffer != buffer[diskcur]) { bad("stripe %u disk %u: task buffer is not the buffer of the delivered slot (%u)", blockcur, diskcur, 0); break; }
			for (k = 0; k < BS; ++k)
				if (task->buffer[k] != data_byte(blockcur, diskcur, k)) { bad("stripe %u disk %u: buffer handed to the caller does not hold the data read for that stripe (byte %u)", blockcur, diskcur, k); break; }
		}
		if (fail) break;
		if (mode_scrub) {
			for (l = 0; l < np; ++l) {
				unsigned levcur;
				struct snapraid_task* task = io_parity_read(&io, &levcur, waiting_map, &waiting_mac);
				if (task->position != blockcur) { bad("parity task of stripe %u handed over while processing stripe %u (%u)", task->position, blockcur, 0); break; }
				for (k = 0; k < BS; ++k)
					if (task->buffer[k] != par_byte(blockcur, levcur, k)) { bad("stripe %u level %u: parity buffer handed to the caller is wrong at byte %u", blockcur, levcur, k); break; }
			}
		}
		/* the caller "computes": it owns the slot; the data must stay intact meanwhile */
		pause_for(mix(blockcur, 7, 7000));
		for (j = 0; j < nd && !fail; ++j)
			for (k = 0; k < BS; ++k)
				if (((unsigned char*)buffer[j])[k] != data_byte(blockcur, j, k)) { bad("stripe %u disk %u: data buffer changed while the caller was using it (byte %u)", blockcur, j, k); break; }
		if (fail) break;

		if (!mode_scrub) {
			int skip = skipw[blockcur];
			if (!skip)
				for (l = 0; l < np; ++l)
					for (k = 0; k < BS; ++k)
						((unsigned char*)buffer[nd + l])[k] = par_byte(blockcur, l, k);
			io_write_preset(&io, blockcur, skip);
			for (l = 0; l < np; ++l) {
				unsigned levcur;
				io_parity_write(&io, &levcur, waiting_map, &waiting_mac);
			}
			io_write_next(&io, blockcur, skip, writer_error);
			for (k = 0; k < IO_WRITER_ERROR_MAX; ++k) got_writer_errors += writer_error[k];
		}
		if (stop && delivered >= stop)
			break;
	}

	io_stop(&io);
	alarm(30);
	for (i = 0; i < IO_WRITER_ERROR_MAX; ++i) got_writer_errors += io.writer_error[i];

	if (!fail && !mode_scrub) {
		block_off_t limit = first ? 0 : prev + 1;
		for (i = 0; i < stripes && !fail; ++i)
			for (l = 0; l < np; ++l) {
				int want = (i < limit && enabled[i] && !skipw[i]) ? 1 : 0;
				if (wcount[i][l] != want) { bad("stripe %u level %u+1 was written %u times", i, l, (unsigned)wcount[i][l]); if (want) {} break; }
				if (want && werr && mix(i, l, 4000) % werr == 0) ++expected_writer_errors;
			}
		if (!fail && got_writer_errors != expected_writer_errors)
			bad("%u writer errors were reported to the caller, the writers raised %u (%u)", got_writer_errors, expected_writer_errors, 0);
	}
	if (!fail && !stop) {
		/* reads: every enabled stripe exactly once per disk */
		for (i = 0; i < stripes && !fail; ++i)
			for (j = 0; j < nd; ++j)
				if (rcount[i][j] != (enabled[i] ? 1 : 0)) { bad("stripe %u was read %u times by reader %u", i, (unsigned)rcount[i][j], j); break; }
	}
	io_done(&io);

	if (fail) {
		printf("FAIL %s\n", why);
		return 1;
	}
	printf("OK delivered=%u writer_errors=%u\n", delivered, got_writer_errors);
	return 0;
}
