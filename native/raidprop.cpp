// raidprop: property-based / exhaustive-sweep harness for the raid library
// (properties C02 and C03).  Links the raid/*.c objects compiled from the
// repository's working tree.  The oracle is an independent GF(2^8)
// implementation (shift-and-xor multiply, polynomial 0x11d) and generator
// matrices built from the formulas documented in raid/raid.c; nothing is read
// from raid/tables.c except as the subject under test.
//
// usage: raidprop <mode> [k=v ...]
//   tables                       exhaustive comparison of every lookup table
//   basis   stride=S             per-disk byte-basis sweep through every gen variant
//   gen     (rapidcheck)         random geometry/content through every gen variant
//   rec     (rapidcheck)         random erasure patterns through raid_rec/raid_data/variants
//   chk     (rapidcheck)         raid_check / raid_scan accept/reject
//   recenum ndmax=N              all index sets for nd<=N
//   minors  full=K samples=N part=i/n   determinants of sub-matrices
//   replay  k=v ...              re-run one explicit case (no rapidcheck)
// rapidcheck is configured by RC_PARAMS.  On failure: prints a line
//   FAIL <k=v ...>   (explicit parameters of the minimal failing case) and exits 1.
// Always prints a final line  STATS {json}.
#include <rapidcheck.h>
#include <cstdint>
#include <cstdio>
#include <cstdlib>
#include <cstring>
#include <string>
#include <vector>
#include <map>
#include <set>
#include <unordered_set>
#include <algorithm>
#include <sstream>
#include <functional>

extern "C" {
void raid_init(void);
void raid_mode(int mode);
void raid_zero(void *zero);
void raid_gen(int nd, int np, size_t size, void **v);
void raid_rec(int nr, int *ir, int nd, int np, size_t size, void **v);
void raid_data(int nr, int *id, int *ip, int nd, size_t size, void **v);
int raid_check(int nr, int *ir, int nd, int np, size_t size, void **v);
int raid_scan(int *ir, int nd, int np, size_t size, void **v);
typedef void genf(int nd, size_t size, void **vv);
typedef void recf(int nr, int *id, int *ip, int nd, size_t size, void **vv);
genf raid_gen1_int32, raid_gen1_int64, raid_gen1_sse2, raid_gen1_avx2;
genf raid_gen2_int32, raid_gen2_int64, raid_gen2_sse2, raid_gen2_avx2, raid_gen2_sse2ext;
genf raid_genz_int32, raid_genz_int64, raid_genz_sse2, raid_genz_sse2ext, raid_genz_avx2ext;
genf raid_gen3_int8, raid_gen3_ssse3, raid_gen3_ssse3ext, raid_gen3_avx2ext;
genf raid_gen4_int8, raid_gen4_ssse3, raid_gen4_ssse3ext, raid_gen4_avx2ext;
genf raid_gen5_int8, raid_gen5_ssse3, raid_gen5_ssse3ext, raid_gen5_avx2ext;
genf raid_gen6_int8, raid_gen6_ssse3, raid_gen6_ssse3ext, raid_gen6_avx2ext;
recf raid_rec1_int8, raid_rec2_int8, raid_recX_int8;
recf raid_rec1_ssse3, raid_rec2_ssse3, raid_recX_ssse3;
recf raid_rec1_avx2, raid_rec2_avx2, raid_recX_avx2;
extern genf *raid_gen3_ptr;
extern genf *raid_genz_ptr;
extern genf *raid_gen_ptr[6];
extern recf *raid_rec_ptr[6];
extern const uint8_t raid_gfmul[256][256];
extern const uint8_t raid_gfexp[256];
extern const uint8_t raid_gfinv[256];
extern const uint8_t raid_gfvandermonde[3][256];
extern const uint8_t raid_gfcauchy[6][256];
extern const uint8_t raid_gfcauchypshufb[251][4][2][16];
extern const uint8_t raid_gfmulpshufb[256][2][16];
}

#define MODE_CAUCHY 0
#define MODE_VANDERMONDE 1
#define NDMAX 251

// ---------------------------------------------------------------- independent field
static uint8_t M[256][256]; // product table built by shift-and-xor
static uint8_t INV[256];
static uint8_t P2[512]; // powers of 2
static uint8_t REF[2][6][NDMAX]; // [mode][row][col]

static uint8_t slowmul(uint8_t a, uint8_t b)
{
	unsigned r = 0, aa = a;
	for (int i = 0; i < 8; ++i) {
		if (b & (1u << i))
			r ^= aa << i;
	}
	// reduce modulo x^8+x^4+x^3+x^2+1 (0x11d)
	for (int i = 15; i >= 8; --i)
		if (r & (1u << i))
			r ^= 0x11du << (i - 8);
	return (uint8_t)r;
}

static void field_init()
{
	for (int a = 0; a < 256; ++a)
		for (int b = 0; b < 256; ++b)
			M[a][b] = slowmul((uint8_t)a, (uint8_t)b);
	INV[0] = 0;
	for (int a = 1; a < 256; ++a)
		for (int b = 1; b < 256; ++b)
			if (M[a][b] == 1)
				INV[a] = (uint8_t)b;
	P2[0] = 1;
	for (int i = 1; i < 512; ++i)
		P2[i] = M[P2[i - 1]][2];
	// extended Cauchy matrix, as documented in raid.c / mktables.c:
	//   row0 = 1, row1 = 2^i, row j>=2: 1/(2^-i + 2^(j-1)) scaled so column 0 is 1
	for (int i = 0; i < NDMAX; ++i) {
		REF[MODE_CAUCHY][0][i] = 1;
		REF[MODE_CAUCHY][1][i] = P2[i];
		uint8_t xi = INV[P2[i]]; // 2^-i
		for (int j = 2; j < 6; ++j) {
			uint8_t yj = P2[j - 1];
			uint8_t e = INV[xi ^ yj];
			uint8_t first = INV[1 ^ yj]; // element of column 0
			REF[MODE_CAUCHY][j][i] = M[e][INV[first]];
		}
		// power matrix: 1, 2^i, 2^-i
		REF[MODE_VANDERMONDE][0][i] = 1;
		REF[MODE_VANDERMONDE][1][i] = P2[i];
		REF[MODE_VANDERMONDE][2][i] = INV[P2[i]];
		REF[MODE_VANDERMONDE][3][i] = REF[MODE_VANDERMONDE][4][i] = REF[MODE_VANDERMONDE][5][i] = 0;
	}
	// cross-check the model against the excerpt printed in raid.c's header comment
	static const uint8_t doc[6][22] = {
		{0x01,0x01,0x01,0x01,0x01,0x01,0x01,0x01,0x01,0x01,0x01,0x01,0x01,0x01,0x01,0x01,0x01,0x01,0x01,0x01,0x01,0x01},
		{0x01,0x02,0x04,0x08,0x10,0x20,0x40,0x80,0x1d,0x3a,0x74,0xe8,0xcd,0x87,0x13,0x26,0x4c,0x98,0x2d,0x5a,0xb4,0x75},
		{0x01,0xf5,0xd2,0xc4,0x9a,0x71,0xf1,0x7f,0xfc,0x87,0xc1,0xc6,0x19,0x2f,0x40,0x55,0x3d,0xba,0x53,0x04,0x9c,0x61},
		{0x01,0xbb,0xa6,0xd7,0xc7,0x07,0xce,0x82,0x4a,0x2f,0xa5,0x9b,0xb6,0x60,0xf1,0xad,0xe7,0xf4,0x06,0xd2,0xdf,0x2e},
		{0x01,0x97,0x7f,0x9c,0x7c,0x18,0xbd,0xa2,0x58,0x1a,0xda,0x74,0x70,0xa3,0xe5,0x47,0x29,0x07,0xf5,0x80,0x23,0xe9},
		{0x01,0x2b,0x3f,0xcf,0x73,0x2c,0xd6,0xed,0xcb,0x74,0x15,0x78,0x8a,0xc1,0x17,0xc9,0x89,0x68,0x21,0xab,0x76,0x3b},
	};
	for (int j = 0; j < 6; ++j)
		for (int i = 0; i < 22; ++i)
			if (REF[MODE_CAUCHY][j][i] != doc[j][i]) {
				fprintf(stderr, "HARNESS ERROR: independent matrix disagrees with the documented excerpt at [%d][%d]\n", j, i);
				exit(2);
			}
}

// ---------------------------------------------------------------- helpers
struct Rng {
	uint64_t s;
	explicit Rng(uint64_t seed) : s(seed * 0x9E3779B97F4A7C15ull + 0x1234567ull) { next(); next(); }
	uint64_t next() { s ^= s << 13; s ^= s >> 7; s ^= s << 17; return s * 0x2545F4914F6CDD1Dull; }
	unsigned below(unsigned n) { return (unsigned)((next() >> 33) % n); }
};

#define GUARD 256
struct Buf {
	uint8_t *raw; uint8_t *p; size_t size;
	Buf() : raw(0), p(0), size(0) {}
	void alloc(size_t sz) {
		size = sz;
		raw = (uint8_t *)aligned_alloc(256, GUARD + sz + GUARD);
		p = raw + GUARD;
		memset(raw, 0xA5, GUARD);
		memset(p + sz, 0x5A, GUARD);
	}
	bool guards_ok() const {
		for (size_t i = 0; i < GUARD; ++i)
			if (raw[i] != 0xA5 || p[size + i] != 0x5A) return false;
		return true;
	}
	void release() { free(raw); raw = 0; }
};

static void fill(uint8_t *p, size_t n, Rng &r, int kind)
{
	switch (kind) {
	case 0: // dense random
		for (size_t i = 0; i + 8 <= n; i += 8) { uint64_t x = r.next(); memcpy(p + i, &x, 8); }
		break;
	case 1: // sparse
		memset(p, 0, n);
		for (int k = 0; k < 3; ++k) p[r.below((unsigned)n)] = (uint8_t)(1 + r.below(255));
		break;
	case 2: // zero
		memset(p, 0, n);
		break;
	case 3: // all ones / high bits (carry paths of the x2 multiply)
		memset(p, 0x80 | r.below(128), n);
		break;
	default: // byte ramp
		for (size_t i = 0; i < n; ++i) p[i] = (uint8_t)(i * 7 + (i >> 6));
	}
}

// reference parity: out[j] = sum_i A[j][i] * D_i
static void ref_parity(int mode, int nd, int np, size_t size, uint8_t **d, std::vector<std::vector<uint8_t>> &out)
{
	out.assign(np, std::vector<uint8_t>(size, 0));
	for (int j = 0; j < np; ++j) {
		uint8_t *o = out[j].data();
		for (int i = 0; i < nd; ++i) {
			const uint8_t *row = M[REF[mode][j][i]];
			const uint8_t *s = d[i];
			for (size_t k = 0; k < size; ++k) o[k] ^= row[s[k]];
		}
	}
}

static bool has(const char *f)
{
	if (!strcmp(f, "sse2")) return __builtin_cpu_supports("sse2");
	if (!strcmp(f, "ssse3")) return __builtin_cpu_supports("ssse3");
	if (!strcmp(f, "avx2")) return __builtin_cpu_supports("avx2");
	return true;
}

struct GenVariant { const char *name; int np; int mode; /* 0 cauchy,1 vandermonde,2 both */ genf *fn; const char *cpu; };
static const GenVariant GENV[] = {
	{"gen1_int32", 1, 2, raid_gen1_int32, ""}, {"gen1_int64", 1, 2, raid_gen1_int64, ""},
	{"gen1_sse2", 1, 2, raid_gen1_sse2, "sse2"}, {"gen1_avx2", 1, 2, raid_gen1_avx2, "avx2"},
	{"gen2_int32", 2, 2, raid_gen2_int32, ""}, {"gen2_int64", 2, 2, raid_gen2_int64, ""},
	{"gen2_sse2", 2, 2, raid_gen2_sse2, "sse2"}, {"gen2_sse2ext", 2, 2, raid_gen2_sse2ext, "sse2"},
	{"gen2_avx2", 2, 2, raid_gen2_avx2, "avx2"},
	{"genz_int32", 3, 1, raid_genz_int32, ""}, {"genz_int64", 3, 1, raid_genz_int64, ""},
	{"genz_sse2", 3, 1, raid_genz_sse2, "sse2"}, {"genz_sse2ext", 3, 1, raid_genz_sse2ext, "sse2"},
	{"genz_avx2ext", 3, 1, raid_genz_avx2ext, "avx2"},
	{"gen3_int8", 3, 0, raid_gen3_int8, ""}, {"gen3_ssse3", 3, 0, raid_gen3_ssse3, "ssse3"},
	{"gen3_ssse3ext", 3, 0, raid_gen3_ssse3ext, "ssse3"}, {"gen3_avx2ext", 3, 0, raid_gen3_avx2ext, "avx2"},
	{"gen4_int8", 4, 0, raid_gen4_int8, ""}, {"gen4_ssse3", 4, 0, raid_gen4_ssse3, "ssse3"},
	{"gen4_ssse3ext", 4, 0, raid_gen4_ssse3ext, "ssse3"}, {"gen4_avx2ext", 4, 0, raid_gen4_avx2ext, "avx2"},
	{"gen5_int8", 5, 0, raid_gen5_int8, ""}, {"gen5_ssse3", 5, 0, raid_gen5_ssse3, "ssse3"},
	{"gen5_ssse3ext", 5, 0, raid_gen5_ssse3ext, "ssse3"}, {"gen5_avx2ext", 5, 0, raid_gen5_avx2ext, "avx2"},
	{"gen6_int8", 6, 0, raid_gen6_int8, ""}, {"gen6_ssse3", 6, 0, raid_gen6_ssse3, "ssse3"},
	{"gen6_ssse3ext", 6, 0, raid_gen6_ssse3ext, "ssse3"}, {"gen6_avx2ext", 6, 0, raid_gen6_avx2ext, "avx2"},
	// the dispatcher as raid_init() configured it for this CPU: np chosen by the case
	{"dispatch_cauchy", 0, 0, 0, ""}, {"dispatch_vandermonde", 0, 1, 0, ""},
};
static const int NGENV = sizeof(GENV) / sizeof(GENV[0]);

// generator families used below recovery functions (raid_delta_gen calls raid_gen)
struct Family { const char *name; genf *g1, *g2, *g3, *g4, *g5, *g6, *gz; const char *cpu; };
static const Family FAM[] = {
	{"int32", raid_gen1_int32, raid_gen2_int32, raid_gen3_int8, raid_gen4_int8, raid_gen5_int8, raid_gen6_int8, raid_genz_int32, ""},
	{"int64", raid_gen1_int64, raid_gen2_int64, raid_gen3_int8, raid_gen4_int8, raid_gen5_int8, raid_gen6_int8, raid_genz_int64, ""},
	{"sse", raid_gen1_sse2, raid_gen2_sse2, raid_gen3_ssse3, raid_gen4_ssse3, raid_gen5_ssse3, raid_gen6_ssse3, raid_genz_sse2, "ssse3"},
	{"sseext", raid_gen1_sse2, raid_gen2_sse2ext, raid_gen3_ssse3ext, raid_gen4_ssse3ext, raid_gen5_ssse3ext, raid_gen6_ssse3ext, raid_genz_sse2ext, "ssse3"},
	{"avx2", raid_gen1_avx2, raid_gen2_avx2, raid_gen3_avx2ext, raid_gen4_avx2ext, raid_gen5_avx2ext, raid_gen6_avx2ext, raid_genz_avx2ext, "avx2"},
	{"default", 0, 0, 0, 0, 0, 0, 0, ""},
};
static const int NFAM = sizeof(FAM) / sizeof(FAM[0]);
struct RecVariant { const char *name; recf *r1, *r2, *rX; const char *cpu; };
static const RecVariant RECV[] = {
	{"int8", raid_rec1_int8, raid_rec2_int8, raid_recX_int8, ""},
	{"ssse3", raid_rec1_ssse3, raid_rec2_ssse3, raid_recX_ssse3, "ssse3"},
	{"avx2", raid_rec1_avx2, raid_rec2_avx2, raid_recX_avx2, "avx2"},
};
static const int NRECV = 3;

static genf *saved_gen_ptr[6]; static genf *saved_gen3, *saved_genz; static recf *saved_rec_ptr[6];
static void save_dispatch() { memcpy(saved_gen_ptr, raid_gen_ptr, sizeof saved_gen_ptr); saved_gen3 = raid_gen3_ptr; saved_genz = raid_genz_ptr; memcpy(saved_rec_ptr, raid_rec_ptr, sizeof saved_rec_ptr); }
static void set_family(int f, int mode)
{
	const Family &F = FAM[f];
	if (!F.g1) {
		memcpy(raid_gen_ptr, saved_gen_ptr, sizeof saved_gen_ptr); raid_gen3_ptr = saved_gen3; raid_genz_ptr = saved_genz;
	} else {
		raid_gen_ptr[0] = F.g1; raid_gen_ptr[1] = F.g2; raid_gen3_ptr = F.g3; raid_gen_ptr[3] = F.g4; raid_gen_ptr[4] = F.g5; raid_gen_ptr[5] = F.g6; raid_genz_ptr = F.gz;
	}
	raid_mode(mode); // installs gen_ptr[2] from gen3_ptr / genz_ptr and the matrix
}
static void set_recv(int r)
{
	if (r < 0) { memcpy(raid_rec_ptr, saved_rec_ptr, sizeof saved_rec_ptr); return; }
	raid_rec_ptr[0] = RECV[r].r1; raid_rec_ptr[1] = RECV[r].r2;
	for (int i = 2; i < 6; ++i) raid_rec_ptr[i] = RECV[r].rX;
}

// ---------------------------------------------------------------- statistics
static uint64_t n_eval = 0, n_nontrivial = 0;
static std::unordered_set<uint64_t> distinct;
static std::map<std::string, uint64_t> classes;
static std::vector<std::string> samples;
static std::string last_fail;
static uint64_t exhaustive_items = 0;

static uint64_t fnv(const std::string &s) { uint64_t h = 1469598103934665603ull; for (unsigned char c : s) { h ^= c; h *= 1099511628211ull; } return h; }
static void note(const std::string &desc, bool nontrivial)
{
	++n_eval;
	if (nontrivial) { ++n_nontrivial; distinct.insert(fnv(desc)); }
	if (samples.size() < 5 || (n_eval % 9973 == 0 && samples.size() < 12)) samples.push_back(desc);
}
static void cls(const char *c) { ++classes[c]; }

static void print_stats(const char *mode, bool ok)
{
	std::ostringstream o;
	o << "{\"mode\":\"" << mode << "\",\"ok\":" << (ok ? "true" : "false") << ",\"evaluations\":" << n_eval
	  << ",\"nontrivial\":" << n_nontrivial << ",\"distinct_nontrivial\":" << distinct.size()
	  << ",\"exhaustive_items\":" << exhaustive_items << ",\"classes\":{";
	bool first = true;
	for (auto &kv : classes) { o << (first ? "" : ",") << "\"" << kv.first << "\":" << kv.second; first = false; }
	o << "},\"samples\":[";
	for (size_t i = 0; i < samples.size(); ++i) o << (i ? "," : "") << "\"" << samples[i] << "\"";
	o << "]}";
	printf("STATS %s\n", o.str().c_str());
}

static std::string ivec(const std::vector<int> &v) { std::string s; for (size_t i = 0; i < v.size(); ++i) { if (i) s += ","; s += std::to_string(v[i]); } return s; }

// ---------------------------------------------------------------- GEN case
struct GenCase { int variant; int nd; int np; size_t size; uint64_t seed; int kind; int alias; };

static std::string gen_desc(const GenCase &c)
{
	std::ostringstream o;
	o << "mode=gen variant=" << GENV[c.variant].name << " nd=" << c.nd << " np=" << c.np << " size=" << c.size
	  << " seed=" << c.seed << " kind=" << c.kind << " alias=" << c.alias;
	return o.str();
}

// returns empty string when the property holds, else a reason
static std::string run_gen(const GenCase &c)
{
	const GenVariant &V = GENV[c.variant];
	int mode = V.mode == 1 ? MODE_VANDERMONDE : MODE_CAUCHY;
	int np = V.fn ? V.np : c.np;
	int nd = c.nd;
	size_t size = c.size;
	Rng r(c.seed);
	std::vector<Buf> b(nd + np);
	std::vector<void *> v(nd + np);
	std::vector<uint8_t *> dp(nd);
	// aliasing: disks >= alias (when alias>0) reuse the buffer of disk (i % alias)
	for (int i = 0; i < nd; ++i) {
		if (c.alias > 0 && i >= c.alias) { dp[i] = dp[i % c.alias]; v[i] = dp[i]; continue; }
		b[i].alloc(size);
		int k = c.kind;
		if (k == 5) k = (int)r.below(5); // mixed kinds per disk
		fill(b[i].p, size, r, k);
		dp[i] = b[i].p; v[i] = dp[i];
	}
	for (int j = 0; j < np; ++j) { b[nd + j].alloc(size); memset(b[nd + j].p, 0xCC, size); v[nd + j] = b[nd + j].p; }
	std::vector<std::vector<uint8_t>> copy(nd);
	for (int i = 0; i < nd; ++i) if (b[i].raw) copy[i].assign(b[i].p, b[i].p + size);
	std::vector<std::vector<uint8_t>> want;
	ref_parity(mode, nd, np, size, dp.data(), want);

	set_family(NFAM - 1, mode);
	if (V.fn) V.fn(nd, size, v.data());
	else raid_gen(nd, np, size, v.data());

	std::string why;
	for (int j = 0; j < np && why.empty(); ++j)
		if (memcmp(b[nd + j].p, want[j].data(), size) != 0) {
			size_t k = 0; while (b[nd + j].p[k] == want[j][k]) ++k;
			why = "parity " + std::to_string(j) + " differs at byte " + std::to_string(k);
		}
	for (int i = 0; i < nd && why.empty(); ++i)
		if (b[i].raw && memcmp(b[i].p, copy[i].data(), size) != 0) why = "data block " + std::to_string(i) + " modified";
	for (int i = 0; i < nd + np && why.empty(); ++i)
		if (b[i].raw && !b[i].guards_ok()) why = "write outside block " + std::to_string(i);
	for (auto &x : b) if (x.raw) x.release();
	return why;
}

// ---------------------------------------------------------------- REC case
// api: 0 raid_rec, 1 raid_data, 2 direct variant call (rec1/rec2/recX by nr)
struct RecCase {
	int api; int mode; int nd; int np; size_t size; uint64_t seed; int kind;
	std::vector<int> ir;   // api 0: failed indices (data < nd, parity nd+j)
	std::vector<int> id, ip; // api 1/2
	int fam; int recv;     // generator family, decoder variant (-1 default dispatch)
	int junk_unused;       // api 1/2: unused parities hold garbage
};

// a sequence of requests sets mode, generator family and decoder once, as a program does (raid_mode() is not called between
// two decodes of a real run)
static bool g_keep_setup = false;

static std::string rec_desc(const RecCase &c)
{
	std::ostringstream o;
	o << "mode=rec api=" << c.api << " gfmode=" << c.mode << " nd=" << c.nd << " np=" << c.np << " size=" << c.size
	  << " seed=" << c.seed << " kind=" << c.kind << " ir=" << ivec(c.ir) << " id=" << ivec(c.id) << " ip=" << ivec(c.ip)
	  << " fam=" << FAM[c.fam].name << " recv=" << (c.recv < 0 ? "default" : RECV[c.recv].name) << " junk=" << c.junk_unused;
	return o.str();
}

static std::string run_rec(const RecCase &c)
{
	int nd = c.nd, np = c.np; size_t size = c.size;
	Rng r(c.seed);
	std::vector<Buf> b(nd + np);
	std::vector<void *> v(nd + np);
	std::vector<uint8_t *> dp(nd);
	for (int i = 0; i < nd + np; ++i) { b[i].alloc(size); v[i] = b[i].p; }
	for (int i = 0; i < nd; ++i) { int k = c.kind == 5 ? (int)r.below(5) : c.kind; fill(b[i].p, size, r, k); dp[i] = b[i].p; }
	std::vector<std::vector<uint8_t>> par;
	ref_parity(c.mode, nd, np, size, dp.data(), par);
	for (int j = 0; j < np; ++j) memcpy(b[nd + j].p, par[j].data(), size);
	std::vector<std::vector<uint8_t>> want(nd + np);
	for (int i = 0; i < nd + np; ++i) want[i].assign(b[i].p, b[i].p + size);
	Buf zero; zero.alloc(size); memset(zero.p, 0, size);
	raid_zero(zero.p);

	std::vector<int> failed; // indices whose content is destroyed and must come back
	if (c.api == 0) failed = c.ir; else failed = c.id;
	for (int f : failed) fill(b[f].p, size, r, 0);
	if (c.api != 0 && c.junk_unused) {
		// parities not used by the call hold garbage and must be left alone
		for (int j = 0; j < np; ++j)
			if (std::find(c.ip.begin(), c.ip.end(), j) == c.ip.end()) { fill(b[nd + j].p, size, r, 0); want[nd + j].assign(b[nd + j].p, b[nd + j].p + size); }
	}
	if (!g_keep_setup) {
		set_family(c.fam, c.mode);
		set_recv(c.recv);
	}
	std::vector<int> ir = c.ir, id = c.id, ip = c.ip;
	if (c.api == 0) raid_rec((int)ir.size(), ir.data(), nd, np, size, v.data());
	else if (c.api == 1) raid_data((int)id.size(), id.data(), ip.data(), nd, size, v.data());
	else {
		int nr = (int)id.size();
		const RecVariant &R = RECV[c.recv < 0 ? 0 : c.recv];
		recf *f = nr == 1 ? R.r1 : nr == 2 ? R.r2 : R.rX;
		f(nr, id.data(), ip.data(), nd, size, v.data());
	}
	if (!g_keep_setup) set_recv(-1);
	std::string why;
	for (int i = 0; i < nd + np && why.empty(); ++i) {
		if ((uint8_t *)v[i] != b[i].p) why = "pointer vector entry " + std::to_string(i) + " not restored";
		else if (memcmp(b[i].p, want[i].data(), size) != 0) {
			bool wasfailed = std::find(failed.begin(), failed.end(), i) != failed.end();
			why = std::string(wasfailed ? "failed block " : "surviving block ") + std::to_string(i) + (wasfailed ? " not restored" : " modified");
		} else if (!b[i].guards_ok()) why = "write outside block " + std::to_string(i);
	}
	if (why.empty() && !zero.guards_ok()) why = "write outside zero block";
	if (why.empty()) for (size_t k = 0; k < size; ++k) if (zero.p[k]) { why = "zero block written"; break; }
	// the caller's index vectors are inputs only
	if (why.empty() && (ir != c.ir || id != c.id || ip != c.ip)) why = "index vector modified";
	for (auto &x : b) x.release();
	zero.release();
	return why;
}

// ---------------------------------------------------------------- REC sequence
// several decode requests in one process, each related to the previous one (prefix, suffix, one dropped, same, other parities,
// one added): a request must be answered exactly whatever was asked before (no state may leak from call to call)
struct RecSeq { RecCase base; std::vector<std::vector<int>> ids, ips; };

static std::string recseq_desc(const RecSeq &q)
{
	std::ostringstream o;
	const RecCase &c = q.base;
	o << "mode=recseq api=" << c.api << " gfmode=" << c.mode << " nd=" << c.nd << " np=" << c.np << " size=" << c.size
	  << " seed=" << c.seed << " kind=" << c.kind << " fam=" << FAM[c.fam].name << " recv=" << (c.recv < 0 ? "default" : RECV[c.recv].name)
	  << " junk=" << c.junk_unused << " n=" << q.ids.size();
	for (size_t k = 0; k < q.ids.size(); ++k) o << " id" << k << "=" << ivec(q.ids[k]) << " ip" << k << "=" << ivec(q.ips[k]);
	return o.str();
}

static std::string run_recseq(const RecSeq &q)
{
	set_family(q.base.fam, q.base.mode);
	set_recv(q.base.recv);
	struct Keep { Keep() { g_keep_setup = true; } ~Keep() { g_keep_setup = false; set_recv(-1); } } keep;
	for (size_t k = 0; k < q.ids.size(); ++k) {
		RecCase c = q.base;
		c.id = q.ids[k]; c.ip = q.ips[k]; c.ir.clear();
		c.seed = q.base.seed + 7919 * k;
		std::string why = run_rec(c);
		if (!why.empty()) return "request " + std::to_string(k) + " (id=" + ivec(c.id) + " ip=" + ivec(c.ip) + "): " + why;
	}
	return "";
}

// ---------------------------------------------------------------- CHECK / SCAN case
struct ChkCase { int mode; int nd; int np; size_t size; uint64_t seed; std::vector<int> T; std::vector<int> S; int scan; int shape; };
static std::string chk_desc(const ChkCase &c)
{
	std::ostringstream o;
	o << "mode=chk gfmode=" << c.mode << " nd=" << c.nd << " np=" << c.np << " size=" << c.size << " seed=" << c.seed
	  << " T=" << ivec(c.T) << " S=" << ivec(c.S) << " scan=" << c.scan << " shape=" << c.shape;
	return o.str();
}
static std::string run_chk(const ChkCase &c)
{
	int nd = c.nd, np = c.np; size_t size = c.size;
	Rng r(c.seed);
	std::vector<Buf> b(nd + np);
	std::vector<void *> v(nd + np);
	std::vector<uint8_t *> dp(nd);
	for (int i = 0; i < nd + np; ++i) { b[i].alloc(size); v[i] = b[i].p; }
	for (int i = 0; i < nd; ++i) { fill(b[i].p, size, r, 0); dp[i] = b[i].p; }
	std::vector<std::vector<uint8_t>> par;
	ref_parity(c.mode, nd, np, size, dp.data(), par);
	for (int j = 0; j < np; ++j) memcpy(b[nd + j].p, par[j].data(), size);
	std::vector<std::vector<uint8_t>> orig(nd + np);
	for (int i = 0; i < nd + np; ++i) orig[i].assign(b[i].p, b[i].p + size);
	// corrupt T: shape 0 = one byte, 1 = whole block random (forced to differ), 2 = same byte offset in all
	size_t common = r.below((unsigned)size);
	for (int t : c.T) {
		if (c.shape == 1) { for (size_t k = 0; k < size; ++k) b[t].p[k] ^= (uint8_t)r.next(); b[t].p[common] ^= (uint8_t)(1 + r.below(255)); /* may cancel; fix below */ }
		else if (c.shape == 2) b[t].p[common] ^= (uint8_t)(1 + r.below(255));
		else b[t].p[r.below((unsigned)size)] ^= (uint8_t)(1 + r.below(255));
		if (memcmp(b[t].p, orig[t].data(), size) == 0) b[t].p[0] ^= 1; // guarantee a real difference
	}
	std::vector<std::vector<uint8_t>> before(nd + np);
	for (int i = 0; i < nd + np; ++i) before[i].assign(b[i].p, b[i].p + size);
	set_family(NFAM - 1, c.mode);
	std::string why;
	std::vector<int> T = c.T, S = c.S;
	if (!c.scan) {
		// accept: the true set (and S when S is a superset of T)
		bool Ssuper = std::includes(S.begin(), S.end(), T.begin(), T.end());
		if ((int)T.size() < np) {
			int rc = raid_check((int)T.size(), T.data(), nd, np, size, v.data());
			if (rc != 0) why = "raid_check rejected the true failure set";
		}
		if (why.empty()) {
			int rc = raid_check((int)S.size(), S.data(), nd, np, size, v.data());
			if (Ssuper && rc != 0) why = "raid_check rejected a superset of the true failure set";
			if (!Ssuper && rc == 0) why = "raid_check accepted a set leaving a corrupted block unlisted";
		}
	} else {
		std::vector<int> ir(np + 1, -1);
		int n = raid_scan(ir.data(), nd, np, size, v.data());
		if (n < 0) why = "raid_scan found no solution";
		else if (n > (int)T.size()) why = "raid_scan returned more blocks than corrupted";
		else {
			ir.resize(n);
			if (2 * (int)T.size() <= np && ir != T) why = "raid_scan did not return the unique failure set";
			else if (raid_check(n, ir.data(), nd, np, size, v.data()) != 0) why = "raid_scan result fails raid_check";
		}
	}
	for (int i = 0; i < nd + np && why.empty(); ++i) {
		if (memcmp(b[i].p, before[i].data(), size) != 0) why = "block " + std::to_string(i) + " modified by check/scan";
		else if (!b[i].guards_ok()) why = "write outside block " + std::to_string(i);
	}
	for (auto &x : b) x.release();
	return why;
}

// ---------------------------------------------------------------- generators
using namespace rc;
template <typename T> static Gen<T> full(Gen<T> g) { return gen::resize(100, std::move(g)); }
static Gen<int> g_nd() {
	return full(gen::weightedOneOf<int>({
		{3, gen::inRange(1, 9)}, {2, gen::inRange(1, 40)}, {2, gen::inRange(30, 35)},
		{3, gen::inRange(1, 252)}, {1, gen::element(250, 251)}, {1, gen::element(1, 2, 3)}}));
}
static Gen<size_t> g_size() {
	return full(gen::weightedOneOf<size_t>({
		{6, gen::map(gen::inRange(1, 9), [](int k) { return (size_t)k * 64; })},
		{3, gen::map(gen::inRange(1, 65), [](int k) { return (size_t)k * 64; })},
		{1, gen::element<size_t>(4096, 8192, 65536)}}));
}
static Gen<std::vector<int>> g_subset(int n, int k) {
	// sorted k-subset of 0..n-1, biased to edges
	return full(gen::map(gen::container<std::vector<int>>(k * 3 + 3, gen::weightedOneOf<int>({{4, gen::inRange(0, n)}, {1, gen::element(0, n - 1)}, {1, gen::inRange(std::max(0, n - 8), n)}})),
		[n, k](std::vector<int> v) {
			std::set<int> s;
			for (int x : v) { if ((int)s.size() < k) s.insert(x); }
			for (int x = 0; (int)s.size() < k && x < n; ++x) s.insert(x);
			return std::vector<int>(s.begin(), s.end());
		}));
}

static int find_genv(const std::string &n) { for (int i = 0; i < NGENV; ++i) if (n == GENV[i].name) return i; return -1; }
static int find_fam(const std::string &n) { for (int i = 0; i < NFAM; ++i) if (n == FAM[i].name) return i; return -1; }
static int find_recv(const std::string &n) { for (int i = 0; i < NRECV; ++i) if (n == RECV[i].name) return i; return -1; }

static bool fail_flag = false;
static void record_fail(const std::string &desc, const std::string &why) { last_fail = desc + " why=" + why; fail_flag = true; }

static bool prop_gen()
{
	std::vector<int> avail;
	for (int i = 0; i < NGENV; ++i) if (has(GENV[i].cpu)) avail.push_back(i);
	return rc::check("parity equals sum A[j][i]*D_i for every implementation", [&]() {
		GenCase c;
		c.variant = *full(gen::elementOf(avail));
		c.nd = *g_nd();
		c.np = *full(gen::inRange(1, GENV[c.variant].mode == 1 ? 4 : 7));
		c.size = *g_size();
		c.seed = *full(gen::arbitrary<uint64_t>());
		c.kind = *full(gen::weightedElement<int>({{6, 0}, {2, 1}, {1, 2}, {1, 3}, {1, 4}, {3, 5}}));
		c.alias = *full(gen::weightedElement<int>({{8, 0}, {1, 1}, {1, 2}, {1, 7}}));
		if (c.nd > 64 && c.size > 4096) c.size = 4096;
		std::string d = gen_desc(c);
		bool nontriv = c.nd >= 2 && c.kind != 2;
		note(d, nontriv);
		if (c.nd > 32) cls("nd>32"); if (c.nd == 251) cls("nd=251"); if (c.nd == 1) cls("nd=1");
		if (c.alias) cls("aliased"); cls(GENV[c.variant].name);
		std::string why = run_gen(c);
		if (!why.empty()) record_fail(d, why);
		RC_ASSERT(why.empty());
	});
}

static bool prop_rec()
{
	return rc::check("any <=np erasures are recovered exactly, nothing else modified", [&]() {
		RecCase c;
		c.mode = *full(gen::weightedElement<int>({{4, MODE_CAUCHY}, {1, MODE_VANDERMONDE}}));
		c.np = *full(gen::inRange(1, c.mode == MODE_VANDERMONDE ? 4 : 7));
		c.nd = *g_nd();
		c.size = *g_size();
		if (c.nd > 64 && c.size > 1024) c.size = 1024;
		c.seed = *full(gen::arbitrary<uint64_t>());
		c.kind = *full(gen::weightedElement<int>({{6, 0}, {1, 1}, {1, 2}, {1, 3}, {3, 5}}));
		c.api = *full(gen::weightedElement<int>({{4, 0}, {3, 1}, {3, 2}}));
		std::vector<int> fams, recvs;
		for (int i = 0; i < NFAM; ++i) if (has(FAM[i].cpu)) fams.push_back(i);
		for (int i = 0; i < NRECV; ++i) if (has(RECV[i].cpu)) recvs.push_back(i);
		c.fam = *full(gen::elementOf(fams));
		c.recv = *full(gen::elementOf(recvs));
		if (c.api != 2 && *full(gen::inRange(0, 4)) == 0) c.recv = -1;
		c.junk_unused = *full(gen::inRange(0, 2));
		if (c.api == 0) {
			int nr = *full(gen::inRange(0, c.np + 1));
			if (nr > c.nd + c.np) nr = c.nd + c.np;
			// mix of data and parity failures
			int nrp = *full(gen::inRange(0, std::min(nr, c.np) + 1));
			int nrd = nr - nrp; if (nrd > c.nd) { nrd = c.nd; }
			std::vector<int> d = *g_subset(c.nd, nrd);
			std::vector<int> p = *g_subset(c.np, nrp);
			c.ir = d; for (int x : p) c.ir.push_back(c.nd + x);
		} else {
			int nr = *full(gen::inRange(1, std::min(c.np, c.nd) + 1));
			c.id = *g_subset(c.nd, nr);
			c.ip = *g_subset(c.np, nr);
		}
		std::string d = rec_desc(c);
		int nfail_data = 0; bool mixed = false, big = false;
		for (int x : c.ir) { if (x < c.nd) ++nfail_data; else mixed = true; if (x >= 32 && x < c.nd) big = true; }
		for (int x : c.id) { ++nfail_data; if (x >= 32) big = true; }
		note(d, nfail_data >= 1);
		if (big) cls("index>=32"); if (c.nd <= 2) cls("nd<=2"); if (mixed && nfail_data) cls("mixed data+parity");
		if ((int)(c.ir.size() + c.id.size()) == 6) cls("nr=6");
		if (c.mode == MODE_VANDERMONDE) cls("vandermonde");
		cls(c.api == 0 ? "raid_rec" : c.api == 1 ? "raid_data" : "direct variant");
		if (c.api != 0 && (int)c.ip.size() >= 1 && c.ip[0] != 0) cls("parity subset not starting at P");
		std::string why = run_rec(c);
		if (!why.empty()) record_fail(d, why);
		RC_ASSERT(why.empty());
	});
}

static bool prop_recseq()
{
	return rc::check("every decode request of a sequence is answered exactly, whatever was asked before", [&]() {
		RecSeq q;
		RecCase &c = q.base;
		c.mode = *full(gen::weightedElement<int>({{4, MODE_CAUCHY}, {1, MODE_VANDERMONDE}}));
		c.np = *full(gen::inRange(2, c.mode == MODE_VANDERMONDE ? 4 : 7));
		c.nd = *full(gen::weightedElement<int>({{3, 4}, {3, 6}, {2, 8}, {2, 12}, {1, 33}, {1, 251}, {1, 2}, {1, 3}}));
		c.size = *full(gen::elementOf(std::vector<size_t>{64, 128, 256, 1024}));
		c.seed = *full(gen::arbitrary<uint64_t>());
		c.kind = 0;
		c.api = *full(gen::weightedElement<int>({{1, 1}, {1, 2}}));
		std::vector<int> fams, recvs;
		for (int i = 0; i < NFAM; ++i) if (has(FAM[i].cpu)) fams.push_back(i);
		for (int i = 0; i < NRECV; ++i) if (has(RECV[i].cpu)) recvs.push_back(i);
		c.fam = *full(gen::elementOf(fams));
		c.recv = *full(gen::elementOf(recvs));
		if (c.api != 2 && *full(gen::inRange(0, 4)) == 0) c.recv = -1;
		c.junk_unused = *full(gen::inRange(0, 2));
		int nmax = std::min(c.np, c.nd);
		int nr = *full(gen::inRange(std::max(1, nmax - 2), nmax + 1));
		std::vector<int> id = *g_subset(c.nd, nr), ip = *g_subset(c.np, nr);
		q.ids.push_back(id); q.ips.push_back(ip);
		int nreq = *full(gen::inRange(2, 5));
		bool shrank = false, grew = false;
		for (int k = 1; k < nreq; ++k) {
			int rel = *full(gen::inRange(0, 7));
			std::vector<int> nid = id, nip = ip;
			int n = (int)id.size();
			if (rel == 0 && n >= 2) { int m = *full(gen::inRange(1, n)); nid.resize(m); nip.resize(m); shrank = true; }              // prefix
			else if (rel == 1 && n >= 2) { int m = *full(gen::inRange(1, n)); nid.erase(nid.begin(), nid.begin() + (n - m)); nip.erase(nip.begin(), nip.begin() + (n - m)); shrank = true; } // suffix
			else if (rel == 2 && n >= 2) { int j = *full(gen::inRange(0, n)); nid.erase(nid.begin() + j); int j2 = *full(gen::inRange(0, n)); nip.erase(nip.begin() + j2); shrank = true; } // one dropped
			else if (rel == 3) { nip = *g_subset(c.np, n); }                                                                            // other parities
			else if (rel == 4 && n < nmax) {                                                                                           // one added
				std::vector<int> freed, freep;
				for (int x = 0; x < c.nd; ++x) if (std::find(id.begin(), id.end(), x) == id.end()) freed.push_back(x);
				for (int x = 0; x < c.np; ++x) if (std::find(ip.begin(), ip.end(), x) == ip.end()) freep.push_back(x);
				if (!freed.empty() && !freep.empty()) {
					nid.push_back(*full(gen::elementOf(freed))); nip.push_back(*full(gen::elementOf(freep)));
					std::sort(nid.begin(), nid.end()); std::sort(nip.begin(), nip.end()); grew = true;
				}
			} else if (rel == 5) { int m = *full(gen::inRange(1, nmax + 1)); nid = *g_subset(c.nd, m); nip = *g_subset(c.np, m); }       // unrelated
			// rel 6 (and the fall-through cases): the same request again
			id = nid; ip = nip;
			q.ids.push_back(id); q.ips.push_back(ip);
		}
		std::string d = recseq_desc(q);
		note(d, true);
		if (shrank) cls("a request is part of the previous one");
		if (grew) cls("a request extends the previous one");
		cls(c.api == 1 ? "raid_data" : "direct variant");
		std::string why = run_recseq(q);
		if (!why.empty()) record_fail(d, why);
		RC_ASSERT(why.empty());
	});
}

static bool prop_chk()
{
	return rc::check("raid_check accepts the true failure set and rejects sets missing a corrupted block", [&]() {
		ChkCase c;
		c.mode = *full(gen::weightedElement<int>({{4, MODE_CAUCHY}, {1, MODE_VANDERMONDE}}));
		c.np = *full(gen::inRange(2, c.mode == MODE_VANDERMONDE ? 4 : 7));
		c.scan = *full(gen::weightedElement<int>({{3, 0}, {1, 1}}));
		c.nd = c.scan ? *full(gen::inRange(1, 13)) : *g_nd();
		c.size = *full(gen::element<size_t>(64, 64, 128, 192, 256, 1024));
		if (c.scan) c.size = 64 * (1 + (c.size / 64) % 3);
		c.seed = *full(gen::arbitrary<uint64_t>());
		c.shape = *full(gen::inRange(0, 3));
		int n = c.nd + c.np;
		if (c.scan) {
			int t = *full(gen::inRange(0, c.np)); // |T| <= np-1
			c.T = *g_subset(n, std::min(t, n));
		} else {
			int s = *full(gen::inRange(0, c.np)); // |S| < np
			s = std::min(s, n - 1);
			c.S = *g_subset(n, s);
			// T = (part of S) union E, with E outside S, |E| <= np-|S|; |T| <= np-1 unless rejecting
			int e = *full(gen::inRange(0, c.np - s + 1));
			std::vector<int> rest;
			for (int x = 0; x < n; ++x) if (!std::binary_search(c.S.begin(), c.S.end(), x)) rest.push_back(x);
			e = std::min<int>(e, (int)rest.size());
			std::vector<int> pick = *g_subset((int)rest.size(), e);
			std::set<int> T;
			for (int i : pick) T.insert(rest[i]);
			for (int x : c.S) if (*full(gen::inRange(0, 2))) T.insert(x);
			c.T.assign(T.begin(), T.end());
			if (e == 0 && (int)c.T.size() >= c.np) c.T.pop_back();
		}
		std::string d = chk_desc(c);
		note(d, !c.T.empty());
		cls(c.scan ? "scan" : "check");
		if (!c.scan) { bool sup = std::includes(c.S.begin(), c.S.end(), c.T.begin(), c.T.end()); cls(sup ? "accept expected" : "reject expected"); }
		std::string why = run_chk(c);
		if (!why.empty()) record_fail(d, why);
		RC_ASSERT(why.empty());
	});
}

// ---------------------------------------------------------------- deterministic sweeps
static bool mode_tables()
{
	bool ok = true; uint64_t n = 0;
	auto bad = [&](const std::string &what) { if (ok) { last_fail = "mode=tables why=" + what; } ok = false; };
	for (int a = 0; a < 256; ++a) for (int b = 0; b < 256; ++b, ++n) if (raid_gfmul[a][b] != M[a][b]) bad("gfmul[" + std::to_string(a) + "][" + std::to_string(b) + "]");
	for (int i = 0; i < 256; ++i, ++n) if (raid_gfexp[i] != P2[i]) bad("gfexp[" + std::to_string(i) + "]");
	for (int a = 1; a < 256; ++a, ++n) if (M[a][raid_gfinv[a]] != 1) bad("gfinv[" + std::to_string(a) + "]");
	for (int j = 0; j < 3; ++j) for (int i = 0; i < NDMAX; ++i, ++n) if (raid_gfvandermonde[j][i] != REF[MODE_VANDERMONDE][j][i]) bad("gfvandermonde[" + std::to_string(j) + "][" + std::to_string(i) + "]");
	for (int j = 0; j < 6; ++j) for (int i = 0; i < NDMAX; ++i, ++n) if (raid_gfcauchy[j][i] != REF[MODE_CAUCHY][j][i]) bad("gfcauchy[" + std::to_string(j) + "][" + std::to_string(i) + "]");
	for (int d = 0; d < NDMAX; ++d) for (int p = 0; p < 4; ++p) for (int k = 0; k < 16; ++k, n += 2) {
		if (raid_gfcauchypshufb[d][p][0][k] != M[REF[MODE_CAUCHY][p + 2][d]][k]) bad("gfcauchypshufb lo d=" + std::to_string(d) + " p=" + std::to_string(p) + " k=" + std::to_string(k));
		if (raid_gfcauchypshufb[d][p][1][k] != M[REF[MODE_CAUCHY][p + 2][d]][k << 4]) bad("gfcauchypshufb hi d=" + std::to_string(d) + " p=" + std::to_string(p) + " k=" + std::to_string(k));
	}
	for (int a = 0; a < 256; ++a) for (int k = 0; k < 16; ++k, n += 2) {
		if (raid_gfmulpshufb[a][0][k] != M[a][k]) bad("gfmulpshufb lo a=" + std::to_string(a));
		if (raid_gfmulpshufb[a][1][k] != M[a][k << 4]) bad("gfmulpshufb hi a=" + std::to_string(a));
	}
	n_eval = n; n_nontrivial = n; exhaustive_items = n;
	for (uint64_t i = 0; i < n; ++i) if (i < 2) distinct.insert(i);
	samples.push_back("gfmul[a][b]==a*b for all 65536 pairs; gfexp; gfinv; gfvandermonde 3x251; gfcauchy 6x251; gfcauchypshufb 251x4x2x16; gfmulpshufb 256x2x16");
	classes["table entries compared"] = n;
	return ok;
}

static bool mode_basis(int stride, int offset)
{
	// disk d holds a 16 KiB block where every one of the 64 byte lanes takes all 256 values
	const size_t size = 16384;
	Buf blk, zero; blk.alloc(size); zero.alloc(size); memset(zero.p, 0, size);
	for (size_t k = 0; k < size; ++k) blk.p[k] = (uint8_t)((k / 64) + (k % 64) * 37);
	std::vector<Buf> par(6); for (auto &p : par) p.alloc(size);
	bool ok = true;
	for (int d = offset; d < NDMAX && ok; d += stride) {
		int nds[2] = {d + 1, NDMAX};
		for (int w = 0; w < 2 && ok; ++w) {
			int nd = nds[w];
			if (w == 1 && d == NDMAX - 1) continue;
			for (int vi = 0; vi < NGENV && ok; ++vi) {
				const GenVariant &V = GENV[vi];
				if (!has(V.cpu)) continue;
				int mode = V.mode == 1 ? MODE_VANDERMONDE : MODE_CAUCHY;
				int npmax = V.fn ? V.np : (mode == MODE_VANDERMONDE ? 3 : 6);
				for (int np = V.fn ? V.np : 1; np <= npmax && ok; ++np) {
					std::vector<void *> v(nd + np);
					for (int i = 0; i < nd; ++i) v[i] = zero.p;
					v[d] = blk.p;
					for (int j = 0; j < np; ++j) { memset(par[j].p, 0xCC, size); v[nd + j] = par[j].p; }
					set_family(NFAM - 1, mode);
					if (V.fn) V.fn(nd, size, v.data()); else raid_gen(nd, np, size, v.data());
					std::ostringstream o; o << "mode=basis variant=" << V.name << " d=" << d << " nd=" << nd << " np=" << np;
					note(o.str(), true);
					for (int j = 0; j < np && ok; ++j) {
						const uint8_t *row = M[REF[mode][j][d]];
						for (size_t k = 0; k < size; ++k) if (par[j].p[k] != row[blk.p[k]]) {
							ok = false; last_fail = o.str() + " why=parity " + std::to_string(j) + " wrong at byte " + std::to_string(k) + " (lane " + std::to_string(k % 64) + ", value " + std::to_string(blk.p[k]) + ")"; break;
						}
						if (ok && !par[j].guards_ok()) { ok = false; last_fail = o.str() + " why=write outside parity block"; }
					}
					for (size_t k = 0; k < size && ok; ++k) if (zero.p[k] || blk.p[k] != (uint8_t)((k / 64) + (k % 64) * 37)) { ok = false; last_fail = o.str() + " why=data modified"; }
				}
			}
		}
	}
	return ok;
}

// all index sets for small nd
static bool mode_recenum(int ndmax)
{
	bool ok = true;
	for (int mode = 0; mode < 2 && ok; ++mode)
	for (int np = 1; np <= (mode ? 3 : 6) && ok; ++np)
	for (int nd = 1; nd <= ndmax && ok; ++nd) {
		int n = nd + np;
		// raid_rec: every subset of size <= np of the n blocks
		for (unsigned mask = 0; mask < (1u << n) && ok; ++mask) {
			int pc = __builtin_popcount(mask);
			if (pc > np) continue;
			RecCase c; c.api = 0; c.mode = mode; c.nd = nd; c.np = np; c.size = 64; c.seed = mask * 7919u + nd * 31 + np; c.kind = 0;
			for (int i = 0; i < n; ++i) if (mask & (1u << i)) c.ir.push_back(i);
			c.junk_unused = 0;
			for (int rv = 0; rv < NRECV && ok; ++rv) {
				if (!has(RECV[rv].cpu)) continue;
				c.recv = rv; c.fam = rv == 0 ? 0 : rv == 1 ? 2 : 4;
				std::string d = rec_desc(c);
				bool nt = false; for (int x : c.ir) if (x < nd) nt = true;
				note(d, nt);
				std::string why = run_rec(c);
				if (!why.empty()) { ok = false; last_fail = d + " why=" + why; }
			}
		}
		// raid_data: every (id, ip) pair of equal size
		for (unsigned dm = 1; dm < (1u << nd) && ok; ++dm) {
			int nr = __builtin_popcount(dm);
			if (nr > np) continue;
			for (unsigned pm = 1; pm < (1u << np) && ok; ++pm) {
				if (__builtin_popcount(pm) != nr) continue;
				RecCase c; c.api = 1; c.mode = mode; c.nd = nd; c.np = np; c.size = 64; c.seed = dm * 131u + pm; c.kind = 0; c.junk_unused = 1;
				for (int i = 0; i < nd; ++i) if (dm & (1u << i)) c.id.push_back(i);
				for (int i = 0; i < np; ++i) if (pm & (1u << i)) c.ip.push_back(i);
				// raid_data takes nd + ip[last]+1 blocks; our np may be larger, which is harmless
				for (int rv = 0; rv < NRECV && ok; ++rv) {
					if (!has(RECV[rv].cpu)) continue;
					c.recv = rv; c.fam = rv == 0 ? 1 : rv == 1 ? 3 : 4;
					std::string d = rec_desc(c);
					note(d, true);
					std::string why = run_rec(c);
					if (!why.empty()) { ok = false; last_fail = d + " why=" + why; }
				}
			}
		}
	}
	exhaustive_items = n_eval;
	return ok;
}

// ---- minors: a k x k sub-matrix is singular iff its columns (as vectors over the chosen rows) are dependent
static uint64_t minors_done = 0;
static bool minors_rows(const uint8_t (*A)[256], const std::vector<int> &rows, int ncols, int part, int nparts, std::string &bad)
{
	int k = (int)rows.size();
	// incremental echelon basis over columns, depth-first over increasing column indices
	struct Frame { uint8_t vec[6]; int piv; };
	std::vector<Frame> basis(k);
	std::vector<int> colstack(k);
	std::function<bool(int, int)> go = [&](int depth, int start) -> bool {
		for (int c = start; c <= ncols - (k - depth); ++c) {
			if (depth == 0 && (c % nparts) != part) continue;
			colstack[depth] = c;
			uint8_t w[6];
			for (int r = 0; r < k; ++r) w[r] = A[rows[r]][c];
			for (int t = 0; t < depth; ++t) {
				uint8_t f = w[basis[t].piv];
				if (f) { const uint8_t *row = M[f]; for (int r = 0; r < k; ++r) w[r] ^= row[basis[t].vec[r]]; }
			}
			int piv = -1;
			for (int r = 0; r < k; ++r) if (w[r]) { piv = r; break; }
			if (piv < 0) {
				// the columns chosen so far are already dependent; any completion is a singular minor
				std::vector<int> cs(colstack.begin(), colstack.begin() + depth + 1);
				for (int x = c + 1; (int)cs.size() < k && x < ncols; ++x) cs.push_back(x);
				for (int x = 0; (int)cs.size() < k && x < ncols; ++x) if (std::find(cs.begin(), cs.end(), x) == cs.end()) cs.push_back(x);
				std::sort(cs.begin(), cs.end());
				bad = "singular rows=" + ivec(rows) + " cols=" + ivec(cs);
				return false;
			}
			if (depth == k - 1) { ++minors_done; continue; }
			uint8_t iv = INV[w[piv]];
			for (int r = 0; r < k; ++r) basis[depth].vec[r] = M[iv][w[r]];
			basis[depth].piv = piv;
			if (!go(depth + 1, c + 1)) return false;
		}
		return true;
	};
	return go(0, 0);
}

static uint8_t det_gauss(std::vector<std::vector<uint8_t>> m)
{
	int n = (int)m.size(); uint8_t det = 1;
	for (int c = 0; c < n; ++c) {
		int p = -1; for (int r = c; r < n; ++r) if (m[r][c]) { p = r; break; }
		if (p < 0) return 0;
		std::swap(m[p], m[c]);
		det = M[det][m[c][c]];
		uint8_t iv = INV[m[c][c]];
		for (int r = c + 1; r < n; ++r) if (m[r][c]) { uint8_t f = M[m[r][c]][iv]; for (int x = c; x < n; ++x) m[r][x] ^= M[f][m[c][x]]; }
	}
	return det;
}

static bool mode_minors(int full_upto, uint64_t nsamples, int part, int nparts, uint64_t seed)
{
	std::string bad;
	for (int which = 0; which < 2; ++which) {
		const uint8_t (*A)[256] = which ? raid_gfvandermonde : raid_gfcauchy;
		int nrows = which ? 3 : 6;
		for (int k = 1; k <= std::min(full_upto, nrows); ++k) {
			std::vector<int> rows(k);
			std::function<bool(int, int)> pick = [&](int depth, int start) -> bool {
				if (depth == k) { return minors_rows(A, rows, NDMAX, part, nparts, bad); }
				for (int r = start; r < nrows; ++r) { rows[depth] = r; if (!pick(depth + 1, r + 1)) return false; }
				return true;
			};
			uint64_t before = minors_done;
			if (!pick(0, 0)) { last_fail = std::string("mode=minors matrix=") + (which ? "vandermonde" : "cauchy") + " " + bad.substr(9) + " why=singular minor"; n_eval = minors_done; return false; }
			classes[std::string(which ? "vandermonde" : "cauchy") + " order " + std::to_string(k) + " (exhaustive share)"] = minors_done - before;
		}
	}
	exhaustive_items = minors_done;
	// sampled higher orders (Cauchy only has rows for them)
	Rng r(seed * 1000003ull + part);
	uint64_t sampled = 0;
	for (uint64_t s = 0; s < nsamples; ++s) {
		int k = full_upto + 1 + (int)r.below(std::max(1, 6 - full_upto));
		if (k > 6) break;
		std::set<int> rs, cs;
		while ((int)rs.size() < k) rs.insert((int)r.below(6));
		while ((int)cs.size() < k) cs.insert((int)r.below(NDMAX));
		std::vector<std::vector<uint8_t>> m;
		for (int rr : rs) { std::vector<uint8_t> row; for (int c : cs) row.push_back(raid_gfcauchy[rr][c]); m.push_back(row); }
		++sampled;
		if (det_gauss(m) == 0) {
			last_fail = "mode=minors matrix=cauchy rows=" + ivec(std::vector<int>(rs.begin(), rs.end())) + " cols=" + ivec(std::vector<int>(cs.begin(), cs.end())) + " why=singular minor";
			return false;
		}
		if (s < 3) { samples.push_back("minor rows=" + ivec(std::vector<int>(rs.begin(), rs.end())) + " cols=" + ivec(std::vector<int>(cs.begin(), cs.end()))); }
	}
	classes["sampled minors of higher order"] = sampled;
	n_eval = minors_done + sampled; n_nontrivial = n_eval;
	distinct.insert(1); distinct.insert(2);
	return true;
}

// ---------------------------------------------------------------- replay
static std::map<std::string, std::string> kv(int argc, char **argv, int from)
{
	std::map<std::string, std::string> m;
	for (int i = from; i < argc; ++i) { std::string a = argv[i]; size_t e = a.find('='); if (e != std::string::npos) m[a.substr(0, e)] = a.substr(e + 1); }
	return m;
}
static std::vector<int> parse_ivec(const std::string &s) { std::vector<int> v; std::stringstream ss(s); std::string t; while (std::getline(ss, t, ',')) if (!t.empty()) v.push_back(atoi(t.c_str())); return v; }

static int mode_replay(std::map<std::string, std::string> a)
{
	std::string m = a["mode"], why;
	if (m == "gen") {
		GenCase c; c.variant = find_genv(a["variant"]); c.nd = atoi(a["nd"].c_str()); c.np = atoi(a["np"].c_str()); c.size = strtoull(a["size"].c_str(), 0, 10);
		c.seed = strtoull(a["seed"].c_str(), 0, 10); c.kind = atoi(a["kind"].c_str()); c.alias = atoi(a["alias"].c_str());
		if (c.variant < 0) { fprintf(stderr, "unknown variant\n"); return 2; }
		why = run_gen(c);
	} else if (m == "rec") {
		RecCase c; c.api = atoi(a["api"].c_str()); c.mode = atoi(a["gfmode"].c_str()); c.nd = atoi(a["nd"].c_str()); c.np = atoi(a["np"].c_str());
		c.size = strtoull(a["size"].c_str(), 0, 10); c.seed = strtoull(a["seed"].c_str(), 0, 10); c.kind = atoi(a["kind"].c_str());
		c.ir = parse_ivec(a["ir"]); c.id = parse_ivec(a["id"]); c.ip = parse_ivec(a["ip"]); c.fam = find_fam(a["fam"]); c.recv = a["recv"] == "default" ? -1 : find_recv(a["recv"]);
		c.junk_unused = atoi(a["junk"].c_str());
		why = run_rec(c);
	} else if (m == "recseq") {
		RecSeq q; RecCase &c = q.base; c.api = atoi(a["api"].c_str()); c.mode = atoi(a["gfmode"].c_str()); c.nd = atoi(a["nd"].c_str()); c.np = atoi(a["np"].c_str());
		c.size = strtoull(a["size"].c_str(), 0, 10); c.seed = strtoull(a["seed"].c_str(), 0, 10); c.kind = atoi(a["kind"].c_str());
		c.fam = find_fam(a["fam"]); c.recv = a["recv"] == "default" ? -1 : find_recv(a["recv"]); c.junk_unused = atoi(a["junk"].c_str());
		int n = atoi(a["n"].c_str());
		for (int k = 0; k < n; ++k) { q.ids.push_back(parse_ivec(a["id" + std::to_string(k)])); q.ips.push_back(parse_ivec(a["ip" + std::to_string(k)])); }
		why = run_recseq(q);
	} else if (m == "chk") {
		ChkCase c; c.mode = atoi(a["gfmode"].c_str()); c.nd = atoi(a["nd"].c_str()); c.np = atoi(a["np"].c_str()); c.size = strtoull(a["size"].c_str(), 0, 10);
		c.seed = strtoull(a["seed"].c_str(), 0, 10); c.T = parse_ivec(a["T"]); c.S = parse_ivec(a["S"]); c.scan = atoi(a["scan"].c_str()); c.shape = atoi(a["shape"].c_str());
		why = run_chk(c);
	} else if (m == "tables") {
		if (!mode_tables()) why = last_fail;
	} else if (m == "basis") {
		// replay a single (d) column through all variants
		if (!mode_basis(NDMAX, atoi(a["d"].c_str()))) why = last_fail;
	} else if (m == "minors") {
		bool van = a["matrix"] == "vandermonde";
		std::vector<int> rs = parse_ivec(a["rows"]), cs = parse_ivec(a["cols"]);
		std::vector<std::vector<uint8_t>> mm;
		for (int rr : rs) { std::vector<uint8_t> row; for (int c : cs) row.push_back(van ? raid_gfvandermonde[rr][c] : raid_gfcauchy[rr][c]); mm.push_back(row); }
		if (rs.size() != cs.size() || rs.empty()) { fprintf(stderr, "bad minor\n"); return 2; }
		if (det_gauss(mm) == 0) why = "singular minor";
	} else { fprintf(stderr, "cannot replay mode '%s'\n", m.c_str()); return 2; }
	if (!why.empty()) { printf("REPLAY-FAIL %s\n", why.c_str()); return 1; }
	printf("REPLAY-PASS\n");
	return 0;
}

int main(int argc, char **argv)
{
	if (argc < 2) { fprintf(stderr, "usage: raidprop <mode> [k=v...]\n"); return 2; }
	field_init();
	raid_init();
	save_dispatch();
	std::string mode = argv[1];
	auto a = kv(argc, argv, 2);
	bool ok = true;
	if (mode == "replay") return mode_replay(a);
	else if (mode == "tables") ok = mode_tables();
	else if (mode == "basis") ok = mode_basis(a.count("stride") ? atoi(a["stride"].c_str()) : 1, a.count("offset") ? atoi(a["offset"].c_str()) : 0);
	else if (mode == "gen") ok = prop_gen();
	else if (mode == "rec") ok = prop_rec();
	else if (mode == "recseq") ok = prop_recseq();
	else if (mode == "chk") ok = prop_chk();
	else if (mode == "recenum") ok = mode_recenum(a.count("ndmax") ? atoi(a["ndmax"].c_str()) : 4);
	else if (mode == "minors") {
		int part = 0, nparts = 1;
		if (a.count("part")) sscanf(a["part"].c_str(), "%d/%d", &part, &nparts);
		ok = mode_minors(a.count("full") ? atoi(a["full"].c_str()) : 3, a.count("samples") ? strtoull(a["samples"].c_str(), 0, 10) : 100000, part, nparts, a.count("seed") ? strtoull(a["seed"].c_str(), 0, 10) : 0);
	} else { fprintf(stderr, "unknown mode\n"); return 2; }
	if (!ok || fail_flag) { printf("FAIL %s\n", last_fail.c_str()); ok = false; }
	print_stats(mode.c_str(), ok);
	return ok ? 0 : 1;
}
