/* loader_harness: fork server around state_read() of the tree under test (C09 part A, C10).
 *
 *   loader_harness <conf>
 * The configuration is loaded once.  Then, for every line "R" on stdin, a child is forked that calls
 * state_read() on whatever is at the configured content path NOW (the driver rewrites that file before
 * each request); the parent answers one line:
 *     "L"            the file was LOADED (state_read returned)
 *     "E <code>"     the child exited with <code> (an error path of the loader)
 *     "S <signal>"   the child was killed by <signal> (6 = abort() of the loader's os_abort; 11/7 = memory fault)
 * With the sanitizer build ASAN_OPTIONS/UBSAN_OPTIONS exitcode=99 makes sanitizer reports distinguishable.
 */
#include "portable.h"
#include "support.h"
#include "elem.h"
#include "state.h"
#include "util.h"
#include "raid/raid.h"
#include <sys/wait.h>

int main(int argc, char* argv[])
{
	struct snapraid_option opt;
	struct snapraid_state state;
	tommy_list filterlist_disk;
	char line[64];
	int devnull;

	if (argc < 2) {
		fprintf(stderr, "usage: loader_harness conf\n");
		return 2;
	}

	lock_init();
	memset(&opt, 0, sizeof(opt));
	opt.io_error_limit = 100;
	opt.skip_device = 1;
	opt.skip_self = 1;
	opt.no_warnings = 1;
	opt.skip_lock = 1;
	tommy_list_init(&filterlist_disk);

	os_init(0);
	raid_init();
	crc32c_init();

	/* keep the loader quiet: messages go to /dev/null, the verdict is the exit status */
	devnull = open("/dev/null", O_WRONLY);
	msg_level = MSG_STATUS;

	state_init(&state);
	state_config(&state, argv[1], "status", &opt, &filterlist_disk);

	printf("READY\n");
	fflush(stdout);

	while (fgets(line, sizeof(line), stdin)) {
		pid_t pid;
		int status;

		if (line[0] != 'R')
			continue;

		pid = fork();
		if (pid == 0) {
			if (devnull >= 0) {
				dup2(devnull, 1);
				dup2(devnull, 2);
			}
			state_read(&state);
			_exit(0);
		}
		if (pid < 0) {
			printf("X fork\n");
			fflush(stdout);
			continue;
		}
		if (waitpid(pid, &status, 0) < 0) {
			printf("X wait\n");
		} else if (WIFEXITED(status)) {
			if (WEXITSTATUS(status) == 0)
				printf("L\n");
			else
				printf("E %d\n", WEXITSTATUS(status));
		} else if (WIFSIGNALED(status)) {
			printf("S %d\n", WTERMSIG(status));
		} else {
			printf("X status\n");
		}
		fflush(stdout);
	}

	return 0;
}
