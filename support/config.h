/* config.h.  Generated from config.h.in by configure.  */
/* config.h.in.  Generated from configure.ac by autoheader.  */

/* Define if building universal (internal helper macro) */
/* #undef AC_APPLE_UNIVERSAL_BUILD */

/* Define to 1 if you have the `access' function. */
#define HAVE_ACCESS 1

/* Define to 1 if inline assembly should be used. */
#define HAVE_ASSEMBLY 1

/* Define to 1 if avx2 is supported by the assembler. */
#define HAVE_AVX2 1

/* Define to 1 if you have the `backtrace' function. */
#define HAVE_BACKTRACE 1

/* Define to 1 if you have the `backtrace_symbols' function. */
#define HAVE_BACKTRACE_SYMBOLS 1

/* Define to 1 if you have the <blkid/blkid.h> header file. */
#define HAVE_BLKID_BLKID_H 1

/* Define to 1 if you have the `blkid_devno_to_devname' function. */
#define HAVE_BLKID_DEVNO_TO_DEVNAME 1

/* Define to 1 if you have the `blkid_get_tag_value' function. */
#define HAVE_BLKID_GET_TAG_VALUE 1

/* Define to 1 if you have the <byteswap.h> header file. */
#define HAVE_BYTESWAP_H 1

/* Define to 1 if you have the `clock_gettime' function. */
#define HAVE_CLOCK_GETTIME 1

/* Define to 1 if you have the declaration of `statfs', and to 0 if you don't.
   */
#define HAVE_DECL_STATFS 1

/* Define to 1 if you have the <dirent.h> header file, and it defines `DIR'.
   */
#define HAVE_DIRENT_H 1

/* Define to 1 if you have the <execinfo.h> header file. */
#define HAVE_EXECINFO_H 1

/* Define to 1 if you have the `fallocate' function. */
#define HAVE_FALLOCATE 1

/* Define to 1 if you have the <fcntl.h> header file. */
#define HAVE_FCNTL_H 1

/* Define to 1 if you have the `ferror_unlocked' function. */
#define HAVE_FERROR_UNLOCKED 1

/* Define to 1 if you have the `flock' function. */
#define HAVE_FLOCK 1

/* Define to 1 if you have the `fnmatch' function. */
#define HAVE_FNMATCH 1

/* Define to 1 if you have the <fnmatch.h> header file. */
#define HAVE_FNMATCH_H 1

/* Define to 1 if you have the `fstatat' function. */
#define HAVE_FSTATAT 1

/* Define to 1 if you have the `fsync' function. */
#define HAVE_FSYNC 1

/* Define to 1 if you have the `ftruncate' function. */
#define HAVE_FTRUNCATE 1

/* Define to 1 if you have the `futimens' function. */
#define HAVE_FUTIMENS 1

/* Define to 1 if you have the `futimes' function. */
#define HAVE_FUTIMES 1

/* Define to 1 if you have the `futimesat' function. */
#define HAVE_FUTIMESAT 1

/* Define to 1 if you have the `getc_unlocked' function. */
#define HAVE_GETC_UNLOCKED 1

/* Define to 1 if you have the `getopt' function. */
#define HAVE_GETOPT 1

/* Define to 1 if you have the <getopt.h> header file. */
#define HAVE_GETOPT_H 1

/* Define to 1 if you have the `getopt_long' function. */
#define HAVE_GETOPT_LONG 1

/* Define to 1 if you have the `gettimeofday' function. */
#define HAVE_GETTIMEOFDAY 1

/* Define to 1 if you have the <inttypes.h> header file. */
#define HAVE_INTTYPES_H 1

/* Define to 1 if you have the <io.h> header file. */
/* #undef HAVE_IO_H */

/* Define to 1 if you have the <limits.h> header file. */
#define HAVE_LIMITS_H 1

/* Define to 1 if you have the <linux/fiemap.h> header file. */
#define HAVE_LINUX_FIEMAP_H 1

/* Define to 1 if you have the <linux/fs.h> header file. */
#define HAVE_LINUX_FS_H 1

/* Define to 1 if you have the `localtime_r' function. */
#define HAVE_LOCALTIME_R 1

/* Define to 1 if you have the `lutimes' function. */
#define HAVE_LUTIMES 1

/* Define to 1 if you have the `mach_absolute_time' function. */
/* #undef HAVE_MACH_ABSOLUTE_TIME */

/* Define to 1 if you have the <mach/mach_time.h> header file. */
/* #undef HAVE_MACH_MACH_TIME_H */

/* Define to 1 if you have the <math.h> header file. */
#define HAVE_MATH_H 1

/* Define to 1 if you have the `memset' function. */
#define HAVE_MEMSET 1

/* Define to 1 if you have the <minix/config.h> header file. */
/* #undef HAVE_MINIX_CONFIG_H */

/* Define to 1 if you have the `mkdir' function. */
#define HAVE_MKDIR 1

/* Define to 1 if you have the <ndir.h> header file, and it defines `DIR'. */
/* #undef HAVE_NDIR_H */

/* Define to 1 if you have the `posix_fadvise' function. */
#define HAVE_POSIX_FADVISE 1

/* Define to 1 if you have the `pthread_create' function. */
#define HAVE_PTHREAD_CREATE 1

/* Define to 1 if you have the <pthread.h> header file. */
#define HAVE_PTHREAD_H 1

/* Define to 1 if you have the `sigaction' function. */
#define HAVE_SIGACTION 1

/* Define to 1 if you have the `snprintf' function. */
#define HAVE_SNPRINTF 1

/* Define to 1 if sse2 is supported by the assembler. */
#define HAVE_SSE2 1

/* Define to 1 if sse4.2 is supported by the assembler. */
#define HAVE_SSE42 1

/* Define to 1 if ssse3 is supported by the assembler. */
#define HAVE_SSSE3 1

/* Define to 1 if you have the `statfs' function. */
#define HAVE_STATFS 1

/* Define to 1 if you have the <stddef.h> header file. */
#define HAVE_STDDEF_H 1

/* Define to 1 if you have the <stdint.h> header file. */
#define HAVE_STDINT_H 1

/* Define to 1 if you have the <stdio.h> header file. */
#define HAVE_STDIO_H 1

/* Define to 1 if you have the <stdlib.h> header file. */
#define HAVE_STDLIB_H 1

/* Define to 1 if you have the `strchr' function. */
#define HAVE_STRCHR 1

/* Define to 1 if you have the `strerror' function. */
#define HAVE_STRERROR 1

/* Define to 1 if you have the <strings.h> header file. */
#define HAVE_STRINGS_H 1

/* Define to 1 if you have the <string.h> header file. */
#define HAVE_STRING_H 1

/* Define to 1 if you have the `strrchr' function. */
#define HAVE_STRRCHR 1

/* Define to 1 if you have the `strtoul' function. */
#define HAVE_STRTOUL 1

/* Define to 1 if `d_ino' is a member of `struct dirent'. */
#define HAVE_STRUCT_DIRENT_D_INO 1

/* Define to 1 if `d_type' is a member of `struct dirent'. */
#define HAVE_STRUCT_DIRENT_D_TYPE 1

/* Define to 1 if `f_fstypename' is a member of `struct statfs'. */
/* #undef HAVE_STRUCT_STATFS_F_FSTYPENAME */

/* Define to 1 if `f_type' is a member of `struct statfs'. */
#define HAVE_STRUCT_STATFS_F_TYPE 1

/* Define to 1 if `st_mtimensec' is a member of `struct stat'. */
/* #undef HAVE_STRUCT_STAT_ST_MTIMENSEC */

/* Define to 1 if `st_mtimespec.tv_nsec' is a member of `struct stat'. */
/* #undef HAVE_STRUCT_STAT_ST_MTIMESPEC_TV_NSEC */

/* Define to 1 if `st_mtim.tv_nsec' is a member of `struct stat'. */
#define HAVE_STRUCT_STAT_ST_MTIM_TV_NSEC 1

/* Define to 1 if `st_nlink' is a member of `struct stat'. */
#define HAVE_STRUCT_STAT_ST_NLINK 1

/* Define to 1 if you have the `sync_file_range' function. */
#define HAVE_SYNC_FILE_RANGE 1

/* Define to 1 if you have the <sys/dir.h> header file, and it defines `DIR'.
   */
/* #undef HAVE_SYS_DIR_H */

/* Define to 1 if you have the <sys/file.h> header file. */
#define HAVE_SYS_FILE_H 1

/* Define to 1 if you have the <sys/ioctl.h> header file. */
#define HAVE_SYS_IOCTL_H 1

/* Define to 1 if you have the <sys/mkdev.h> header file. */
/* #undef HAVE_SYS_MKDEV_H */

/* Define to 1 if you have the <sys/mount.h> header file. */
/* #undef HAVE_SYS_MOUNT_H */

/* Define to 1 if you have the <sys/ndir.h> header file, and it defines `DIR'.
   */
/* #undef HAVE_SYS_NDIR_H */

/* Define to 1 if you have the <sys/param.h> header file. */
/* #undef HAVE_SYS_PARAM_H */

/* Define to 1 if you have the <sys/statfs.h> header file. */
#define HAVE_SYS_STATFS_H 1

/* Define to 1 if you have the <sys/stat.h> header file. */
#define HAVE_SYS_STAT_H 1

/* Define to 1 if you have the <sys/sysmacros.h> header file. */
#define HAVE_SYS_SYSMACROS_H 1

/* Define to 1 if you have the <sys/time.h> header file. */
#define HAVE_SYS_TIME_H 1

/* Define to 1 if you have the <sys/types.h> header file. */
#define HAVE_SYS_TYPES_H 1

/* Define to 1 if you have the <sys/vfs.h> header file. */
#define HAVE_SYS_VFS_H 1

/* Define to 1 if you have <sys/wait.h> that is POSIX.1 compatible. */
#define HAVE_SYS_WAIT_H 1

/* Define to 1 if you have the <time.h> header file. */
#define HAVE_TIME_H 1

/* Define to 1 if you have the <unistd.h> header file. */
#define HAVE_UNISTD_H 1

/* Define to 1 if you have the `utimensat' function. */
#define HAVE_UTIMENSAT 1

/* Define to 1 if you have the `vsnprintf' function. */
#define HAVE_VSNPRINTF 1

/* Define to 1 if you have the <wchar.h> header file. */
#define HAVE_WCHAR_H 1

/* Define to 1 if assertions should be disabled. */
/* #undef NDEBUG */

/* Name of package */
#define PACKAGE "snapraid"

/* Define to the address where bug reports for this package should be sent. */
#define PACKAGE_BUGREPORT ""

/* Define to the full name of this package. */
#define PACKAGE_NAME "snapraid"

/* Define to the full name and version of this package. */
#define PACKAGE_STRING "snapraid none"

/* Define to the one symbol short name of this package. */
#define PACKAGE_TARNAME "snapraid"

/* Define to the home page for this package. */
#define PACKAGE_URL "http://www.snapraid.it"

/* Define to the version of this package. */
#define PACKAGE_VERSION "none"

/* Define to 1 if all of the C90 standard headers exist (not just the ones
   required in a freestanding environment). This macro is provided for
   backward compatibility; new code need not use it. */
#define STDC_HEADERS 1

/* Enable extensions on AIX 3, Interix.  */
#ifndef _ALL_SOURCE
# define _ALL_SOURCE 1
#endif
/* Enable general extensions on macOS.  */
#ifndef _DARWIN_C_SOURCE
# define _DARWIN_C_SOURCE 1
#endif
/* Enable general extensions on Solaris.  */
#ifndef __EXTENSIONS__
# define __EXTENSIONS__ 1
#endif
/* Enable GNU extensions on systems that have them.  */
#ifndef _GNU_SOURCE
# define _GNU_SOURCE 1
#endif
/* Enable X/Open compliant socket functions that do not require linking
   with -lxnet on HP-UX 11.11.  */
#ifndef _HPUX_ALT_XOPEN_SOCKET_API
# define _HPUX_ALT_XOPEN_SOCKET_API 1
#endif
/* Identify the host operating system as Minix.
   This macro does not affect the system headers' behavior.
   A future release of Autoconf may stop defining this macro.  */
#ifndef _MINIX
/* # undef _MINIX */
#endif
/* Enable general extensions on NetBSD.
   Enable NetBSD compatibility extensions on Minix.  */
#ifndef _NETBSD_SOURCE
# define _NETBSD_SOURCE 1
#endif
/* Enable OpenBSD compatibility extensions on NetBSD.
   Oddly enough, this does nothing on OpenBSD.  */
#ifndef _OPENBSD_SOURCE
# define _OPENBSD_SOURCE 1
#endif
/* Define to 1 if needed for POSIX-compatible behavior.  */
#ifndef _POSIX_SOURCE
/* # undef _POSIX_SOURCE */
#endif
/* Define to 2 if needed for POSIX-compatible behavior.  */
#ifndef _POSIX_1_SOURCE
/* # undef _POSIX_1_SOURCE */
#endif
/* Enable POSIX-compatible threading on Solaris.  */
#ifndef _POSIX_PTHREAD_SEMANTICS
# define _POSIX_PTHREAD_SEMANTICS 1
#endif
/* Enable extensions specified by ISO/IEC TS 18661-5:2014.  */
#ifndef __STDC_WANT_IEC_60559_ATTRIBS_EXT__
# define __STDC_WANT_IEC_60559_ATTRIBS_EXT__ 1
#endif
/* Enable extensions specified by ISO/IEC TS 18661-1:2014.  */
#ifndef __STDC_WANT_IEC_60559_BFP_EXT__
# define __STDC_WANT_IEC_60559_BFP_EXT__ 1
#endif
/* Enable extensions specified by ISO/IEC TS 18661-2:2015.  */
#ifndef __STDC_WANT_IEC_60559_DFP_EXT__
# define __STDC_WANT_IEC_60559_DFP_EXT__ 1
#endif
/* Enable extensions specified by ISO/IEC TS 18661-4:2015.  */
#ifndef __STDC_WANT_IEC_60559_FUNCS_EXT__
# define __STDC_WANT_IEC_60559_FUNCS_EXT__ 1
#endif
/* Enable extensions specified by ISO/IEC TS 18661-3:2015.  */
#ifndef __STDC_WANT_IEC_60559_TYPES_EXT__
# define __STDC_WANT_IEC_60559_TYPES_EXT__ 1
#endif
/* Enable extensions specified by ISO/IEC TR 24731-2:2010.  */
#ifndef __STDC_WANT_LIB_EXT2__
# define __STDC_WANT_LIB_EXT2__ 1
#endif
/* Enable extensions specified by ISO/IEC 24747:2009.  */
#ifndef __STDC_WANT_MATH_SPEC_FUNCS__
# define __STDC_WANT_MATH_SPEC_FUNCS__ 1
#endif
/* Enable extensions on HP NonStop.  */
#ifndef _TANDEM_SOURCE
# define _TANDEM_SOURCE 1
#endif
/* Enable X/Open extensions.  Define to 500 only if necessary
   to make mbstate_t available.  */
#ifndef _XOPEN_SOURCE
/* # undef _XOPEN_SOURCE */
#endif


/* Version number of package */
#define VERSION "none"

/* Define WORDS_BIGENDIAN to 1 if your processor stores words with the most
   significant byte first (like Motorola and SPARC, unlike Intel). */
#if defined AC_APPLE_UNIVERSAL_BUILD
# if defined __BIG_ENDIAN__
#  define WORDS_BIGENDIAN 1
# endif
#else
# ifndef WORDS_BIGENDIAN
/* #  undef WORDS_BIGENDIAN */
# endif
#endif

/* Number of bits in a file offset, on hosts where this is settable. */
/* #undef _FILE_OFFSET_BITS */

/* Define for large files, on AIX-style hosts. */
/* #undef _LARGE_FILES */

/* Define for Solaris 2.5.1 so the uint32_t typedef from <sys/synch.h>,
   <pthread.h>, or <semaphore.h> is not used. If the typedef were allowed, the
   #define below would cause a syntax error. */
/* #undef _UINT32_T */

/* Define for Solaris 2.5.1 so the uint64_t typedef from <sys/synch.h>,
   <pthread.h>, or <semaphore.h> is not used. If the typedef were allowed, the
   #define below would cause a syntax error. */
/* #undef _UINT64_T */

/* Define for Solaris 2.5.1 so the uint8_t typedef from <sys/synch.h>,
   <pthread.h>, or <semaphore.h> is not used. If the typedef were allowed, the
   #define below would cause a syntax error. */
/* #undef _UINT8_T */

/* Define to empty if `const' does not conform to ANSI C. */
/* #undef const */

/* Define to `__inline__' or `__inline' if that's what the C compiler
   calls it, or to nothing if 'inline' is not supported under any name.  */
#ifndef __cplusplus
/* #undef inline */
#endif

/* Define to the type of a signed integer type of width exactly 8 bits if such
   a type exists and the standard includes do not define it. */
/* #undef int8_t */

/* Define to `long int' if <sys/types.h> does not define. */
/* #undef off_t */

/* Define to the equivalent of the C99 'restrict' keyword, or to
   nothing if this is not supported.  Do not define if restrict is
   supported only directly.  */
#define restrict __restrict__
/* Work around a bug in older versions of Sun C++, which did not
   #define __restrict__ or support _Restrict or __restrict__
   even though the corresponding Sun C compiler ended up with
   "#define restrict _Restrict" or "#define restrict __restrict__"
   in the previous line.  This workaround can be removed once
   we assume Oracle Developer Studio 12.5 (2016) or later.  */
#if defined __SUNPRO_CC && !defined __RESTRICT && !defined __restrict__
# define _Restrict
# define __restrict__
#endif

/* Define to `unsigned int' if <sys/types.h> does not define. */
/* #undef size_t */

/* Define to `int' if <sys/types.h> does not define. */
/* #undef ssize_t */

/* Define to the type of an unsigned integer type of width exactly 32 bits if
   such a type exists and the standard includes do not define it. */
/* #undef uint32_t */

/* Define to the type of an unsigned integer type of width exactly 64 bits if
   such a type exists and the standard includes do not define it. */
/* #undef uint64_t */

/* Define to the type of an unsigned integer type of width exactly 8 bits if
   such a type exists and the standard includes do not define it. */
/* #undef uint8_t */

/* Define to empty if the keyword `volatile' does not work. Warning: valid
   code using `volatile' can become incorrect without. Disable with care. */
/* #undef volatile */
