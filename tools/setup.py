#!/usr/bin/env python3
"""MANIFEST.setup_cmd: build the framework offline from files on disk and self-test the oracles."""
import os
import sys
VERIF = os.path.dirname(os.path.dirname(os.path.abspath(__file__)))
sys.path.insert(0, os.path.join(VERIF, "tools"))
sys.path.insert(0, os.path.join(VERIF, "lib"))
import build

ALL = ["rel", "san", "raidprop", "oracle", "shim"]


def main():
    extra = [v for v in ("vectool",  "loader", "loader_san", "ring", "filter", "content_fuzz")
             if os.path.exists(os.path.join(VERIF, "native", {"shim": "../shim/verifshim.c", "vectool": "vectool.c", "loader": "loader_harness.c",
                                                                "loader_san": "loader_harness.c", "ring": "ring_harness.c", "filter": "filter_harness.c", "content_fuzz": "content_fuzz.c"}[v]))]
    out = build.build(ALL + extra)
    for k, v in out.items():
        print("built", k, v)
    try:
        import selftest
        selftest.main()
    except ImportError:
        pass
    print("setup ok")


if __name__ == "__main__":
    main()
