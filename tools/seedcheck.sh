#!/bin/bash
# usage: seedcheck.sh <seed-id> <worktree> <check ids...>
# confirms the demonstration (fails with the change, passes without) and runs the named checks against the changed tree
# (no git stash: the stash is shared by all worktrees of a repository)
id=$1; wt=$2; shift 2
cd "$wt" || exit 2
echo "== patch"; git diff --stat -- cmdline raid tommyds | tail -3
git diff -- cmdline raid tommyds > /tmp/seed/$id.own.diff
make -j8 >/dev/null 2>&1 || { echo "BUILD FAILED"; exit 2; }
cp snapraid /tmp/seed/$id.seeded.bin
git apply -R /tmp/seed/$id.own.diff && make -j8 >/dev/null 2>&1; cp snapraid /tmp/seed/$id.orig.bin; git apply /tmp/seed/$id.own.diff && make -j8 >/dev/null 2>&1
cmp -s snapraid /tmp/seed/$id.seeded.bin || echo "== WARNING: rebuilt changed binary differs from the first build"
bash SEED/demo.sh /tmp/seed/$id.orig.bin >/tmp/seed/$id.demo.orig.log 2>&1; a=$?
bash SEED/demo.sh /tmp/seed/$id.seeded.bin >/tmp/seed/$id.demo.seeded.log 2>&1; b=$?
echo "== demo: unchanged rc=$a  changed rc=$b"
cd /verif
for c in "$@"; do
  out=$(VERIF_EVIDENCE_DIR=/tmp/seed-evidence VERIF_REPO=$wt VERIF_BUILD=/tmp/seed/$id-vb ./check $c quick 2>&1); rc=$?
  echo "== check $c rc=$rc: $(echo "$out" | grep -A1 -E 'VIOLATION|INFRA' | head -4 | cut -c1-300 | tr '\n' ' ')"
done
