#!/bin/sh
# usage: mkseedwt.sh <name>   -- scratch git worktree of /repo HEAD at /tmp/seed/<name>, with the untracked build files so that `make` works
set -e
d=/tmp/seed/$1
git -C /repo worktree add -f "$d" HEAD --detach -q
rsync -a --ignore-existing --exclude .git --exclude bench --exclude '*.o' --exclude '*.log' --exclude snapraid --exclude mktest --exclude mkstream --exclude 'stream*.bin' /repo/ "$d"/
# the generated Makefile has no absolute paths to /repo? make sure of it
grep -l "/repo" "$d"/Makefile >/dev/null 2>&1 && sed -i "s#/repo#$d#g" "$d"/Makefile "$d"/config.status 2>/dev/null || true
echo "$d"
