#!/usr/bin/env python3
"""Single entry point of every check:  check <ID> quick|thorough [--replay FILE]
exit 0: property held on everything explored; 1: VIOLATION printed; 2: infrastructure failure."""
import importlib
import os
import sys
import traceback

VERIF = os.path.dirname(os.path.dirname(os.path.abspath(__file__)))
sys.path.insert(0, os.path.join(VERIF, "lib"))
sys.path.insert(0, os.path.join(VERIF, "props"))
sys.path.insert(0, os.path.join(VERIF, "tools"))

REGISTRY = {
    "C02": ("raid", "C02"), "C03": ("raid", "C03"),
    "C06": ("pbt", "c06"), "C01": ("pbt", "c01"), "C07": ("pbt", "c07"), "C11": ("pbt", "c11"), "C05": ("pbt", "c05"), "C04": ("pbt", "c04"), "C12": ("pbt", "c12"), "C14": ("pbt", "c14"), "C10": ("pbt", "c10"), "C20": ("pbt", "c20"), "C15": ("pbt", "c15"), "C17": ("pbt", "c17"), "C18": ("pbt", "c18"), "C19": ("pbt", "c19"), "C08": ("pbt", "c08"), "C09": ("pbt", "c09"), "C13": ("pbt", "c13"), "C16": ("c16", "C16"),
}


def main():
    args = sys.argv[1:]
    if not args:
        print(__doc__)
        return 2
    pid = args[0]
    tier = os.environ.get("VERIF_TIER", "quick")
    replay = None
    i = 1
    while i < len(args):
        if args[i] in ("quick", "thorough"):
            tier = args[i]
        elif args[i] == "--replay":
            replay = args[i + 1]
            i += 1
        i += 1
    seed = int(os.environ.get("VERIF_SEED", "0") or 0)
    if pid not in REGISTRY:
        print("unknown property " + pid)
        return 2
    modname, arg = REGISTRY[pid]
    try:
        mod = importlib.import_module(modname)
        if modname == "pbt":
            return mod.main(arg, tier, seed, replay=replay)
        return mod.main(arg, tier, seed, replay=replay)
    except SystemExit as e:
        return e.code if isinstance(e.code, int) else 2
    except Exception:
        traceback.print_exc()
        print("INFRA: check %s crashed (this is a harness failure, not a verdict)" % pid)
        return 2


if __name__ == "__main__":
    sys.exit(main())
