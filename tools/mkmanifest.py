#!/usr/bin/env python3
"""Regenerates MANIFEST.json from the table below and validates it against the schema.
Run after adding or changing a check:  python3-vt tools/mkmanifest.py"""
import json
import os
import subprocess

VERIF = os.path.dirname(os.path.dirname(os.path.abspath(__file__)))

TITLES = {}
for line in open(os.path.join(VERIF, "properties.jsonl")):
    p = json.loads(line)
    TITLES[p["id"]] = p["title"]

# id -> dict(category, text, note, technique, engine, design)
CHECKS = {
    "C02": dict(
        category="exploration",
        technique="property-based testing (rapidcheck) + exhaustive table/basis sweeps against an independent GF(2^8) model",
        engine="raidprop",
        text="Every exported lookup table is compared entry by entry with an independent field/matrix model (exhaustive); every gen "
             "variant the CPU runs is driven with the complete per-disk byte basis (all 251 columns, all 256 values in all 64 lanes) and "
             "with ~10^6 (quick) / 10^7 (thorough) random geometries; parity, untouched data and 256-byte guard zones are checked. "
             "Absence of counter-examples in the explored space, exhaustive only for the tables and the basis.",
        note="Trusts the harness's own shift-and-xor GF(2^8) arithmetic and the matrix formulas documented in raid/raid.c (cross-checked "
             "with the excerpt printed there); only CPU variants available on the host are run; block sizes up to 64 KiB.",
        design="DESIGN.md section 4, C02"),
    "C03": dict(
        category="exploration",
        technique="property-based testing (rapidcheck) + exhaustive small-geometry and minor enumeration against an independent model",
        engine="raidprop",
        text="Random erasure patterns (raid_rec, raid_data, rec1/rec2/recX of int8/ssse3/avx2 over every generator family, both "
             "matrices) must restore lost blocks bit-exactly and leave every other block and guard zone untouched; raid_check/raid_scan "
             "accept/reject as the MDS distance dictates; all index sets enumerated for nd<=4 (quick) / 7 (thorough); all minors up to "
             "order 3 (quick) / 4 (thorough) shown non-singular by independent elimination, orders above sampled.",
        note="Also sequences of 2-4 related decode requests in one process with the mode set once (recseq). Minors of order 5 and 6 are sampled, not enumerated; expected blocks come from the independent encoder, not from raid_gen.",
        design="DESIGN.md section 4, C03"),
    "C01": dict(
        category="exploration",
        technique="property-based testing (Hypothesis): generated history + generated damage within the parity level, restored tree compared with the synced snapshot",
        engine="hypothesis-cli",
        text="Generated configurations and sync histories, then device-level (<=N devices, several shapes each) or stripe-level (<=N "
             "victims per stripe chosen on the independently parsed block map) damage, all but one content copy optionally removed; "
             "fix must exit 0 without unrecoverable reports, the data disks must equal the snapshot taken at the sync (bytes, mtime "
             "in ns, links, empty dirs, hard-link groups), check must pass and the C06 parity oracle must hold. ~32000 cases quick, "
             "160k thorough.",
        note="Silent corruption is generated only with hash size >= 8 (collisions of 2/4-byte hashes are legitimate misses); arrays "
             "are small; lost disks keep their mount directory.",
        design="DESIGN.md section 4, C01"),
    "C06": dict(
        category="exploration",
        technique="stateful property-based testing (Hypothesis) with an independent content parser, hashes and GF(2^8) parity oracle",
        engine="hypothesis-cli",
        text="Random histories (file-system changes interleaved with sync variants, scrub, fix, rehash, touch, check, test-rewrite, "
             "file loss) over generated configurations; after every single command the on-disk content file is decoded by an "
             "independent parser and every stripe recorded as fully synced is recomputed from the bytes the harness wrote, for "
             "every parity level, through the recorded split sizes. ~4000 histories quick, ~100k thorough; no counter-example "
             "means the invariant held on all of them.",
        note="Small arrays (<=5 disks, <=~150 stripes, 1-4 KiB blocks); trusts the harness's version store, its independent "
             "hash/GF/CRC implementations (validated against reference vectors) and the reading that a stripe with a CHG/REP/DELETED "
             "block is not recorded as synced.",
        design="DESIGN.md section 4, C06"),
    "C07": dict(
        category="fault_enumeration",
        technique="fault injection over generated cases: process kill at every/sampled state-changing syscall (LD_PRELOAD shim), SIGINT/SIGTERM at parity-write indices, then independent oracles",
        engine="hypothesis-cli",
        text="For generated arrays with a pending change set, a traced sync counts its state-changing system calls; the sync is then "
             "re-run from the same restored array and killed before / after / in the middle of call k (sampled k in quick, every k "
             "of the case in thorough) or stopped by SIGINT/SIGTERM at a parity write. After each interruption: data disks byte- and "
             "mtime-identical, every content copy complete and loadable (independent parser + status/diff/list), C06 oracle on every "
             "copy and single-device (abrupt) / N-device (graceful) recovery of every previously synced file for adds-only sets, "
             "resumed sync completes and recovers a lost disk. Interrupted fix re-run equals an uninterrupted fix.",
        note="Crash model is process death (page cache survives). Hash size fixed at 16 (the property does not range over hash "
             "sizes). A short write into a parity block counts as one damaged block of that stripe, so the single-device clause is "
             "checked there only with >= 2 parity levels.",
        design="DESIGN.md section 4, C07"),
    "C11": dict(
        category="exploration",
        technique="stateful property-based testing (Hypothesis): model verdict for diff, tree-vs-list comparison, read-trace audit via LD_PRELOAD shim",
        engine="hypothesis-cli",
        text="Random sequences of file-system operations between syncs (all scan orders, threaded/sequential scan, trusted and "
             "untrusted inodes). Before each sync the exit status of diff is compared with a verdict computed from the independently "
             "parsed content file and the real tree; after each successful full sync diff must exit 0/equal, list must equal the tree "
             "(names, sizes, ns time-stamps, targets, hard-link groups), empty dirs must be recorded, check must pass, the C06 oracle "
             "must hold and the system-call trace must show that every pending block of every new/changed file was read.",
        note="The diff verdict is skipped when the hard-link structure is ambiguous; empty directories alone are not a difference; "
             "small arrays.",
        design="DESIGN.md section 4, C11"),
    "C05": dict(
        category="exploration",
        technique="property-based testing (Hypothesis) with a version-store oracle: generated imperfect syncs (partial, killed, disturbed by --test-run, shim kill), unbounded damage, generated fix filters",
        engine="hypothesis-cli",
        text="After any generated history ending in an imperfect sync and any damage (also beyond N devices), each recorded file "
             "must end with the bytes of its recorded (size, mtime) version, or be reported unrecoverable with failing status, or be "
             "untouched; recovered-with-other-bytes, silent rewrites, writes to unknown paths or to content files are violations. "
             "Two listed known findings (C05-chg-length, C05-hybrid) are recognised by specific signatures, counted, and the search "
             "continues past them; their regression cases are replayed on every run.",
        note="A third of the cases plant copies that keep their name on another disk in the unfinished sync (optionally a second unfinished round after replacing them). Hash size 16; silent byte changes only in blocks with a recorded hash of current data (the property's damage domain); "
             "a fix that stops with a fatal error is re-run as the tool asks and the completed run is judged.",
        design="DESIGN.md section 4, C05 and section 7"),
    "C04": dict(
        category="exploration",
        technique="property-based testing (Hypothesis): corruption sets generated on the independently parsed block map, predicted error tags and bad marks compared with the tool's log, content file and status",
        engine="hypothesis-cli",
        text="After generated histories closed by a sync (optionally with a hash migration in progress) data and parity blocks are "
             "corrupted silently (bit, byte, block, zeroing; size and mtime kept); check -a, check and scrub plans must name exactly "
             "the damaged blocks (disk, file, file position / level, stripe), exit non-zero, and scrub must mark exactly the covered "
             "damaged stripes bad (independent content parse, status has_bad, scrub -p bad re-reports them); undamaged arrays give "
             "exit 0, no error, no mark.",
        note="Shapes include the swap of two blocks; after a scrub, the repeated scrub -p bad and a following check are compared block by block. Truncated-hash collisions are recomputed by the oracle and exempted; parity verdicts are expected only where the "
             "command can judge the stripe (scrub: all data of the stripe correct; check: <= N damaged blocks); swap-of-two-blocks shape "
             "is not generated yet.",
        design="DESIGN.md section 4, C04"),
    "C12": dict(
        category="exploration",
        technique="property-based testing (Hypothesis): byte-exact before/after snapshots of the whole scratch root against a per-command allow-list",
        engine="hypothesis-cli",
        text="Every command (status, diff, list, dup, devices, check, scrub, sync, fix, pool, touch) with generated options is run on "
             "arrays brought by a random history to a healthy, unsynced, silently corrupted, damaged, partially lost or "
             "content-copy-missing condition; everything below the scratch root is snapshotted before and after and each changed path "
             "must be allowed for that command (read-only: nothing; scrub: content; sync: content+parity; fix: only reported paths and "
             "parity_fixed blocks, never content; pool: pool dir; touch: zero sub-seconds + content).",
        note="Touch cases make whole-second time-stamps frequent; fix cases replace recorded empty files by symbolic links; pool cases record a link to a directory with an empty sub-directory. Block-wise attribution of parity changes by fix is done for single-file parity levels; for split levels only the file "
             "set is checked.",
        design="DESIGN.md section 4, C12"),
    "C14": dict(
        category="exploration",
        technique="property-based testing (Hypothesis) of refusal/override pairs, with a shim-paused first command for the lock",
        engine="hypothesis-cli",
        text="For generated synced arrays (+ ordinary pending changes) each interlock trigger is applied on a generated device: "
             "all files missing / rewritten, zero-size file, parity truncated below the used size or deleted (any level/split), "
             "blocksize / hashsize changed, disk dropped from the configuration, a second command while a first one is paused holding "
             "the lock. Without override: exit != 0 and content, parity and data byte-identical; with the override (or restored "
             "configuration, or the first command finished) the sync completes and the C06 oracle holds; control cases must not be "
             "refused.",
        note="Triggers include a renamed disk line (without usable UUIDs) and disks that keep a recorded empty directory. An absent parity file may be created empty by a refused sync; refusals for 'Insufficient parity space' under "
             "--test-parity-limit are legitimate and counted as trivial.",
        design="DESIGN.md section 4, C14"),
    "C10": dict(
        category="exploration",
        technique="property-based testing (Hypothesis): round trip through test-rewrite judged by an independent decoder AND an independent encoder; synthesised boundary-value states",
        engine="hypothesis-cli",
        text="(1) States reached by random histories (pending/replaced/deleted blocks, bad / rehash / just-synced marks, holes, links, "
             "dirs, odd names, all hash sizes, both formats): the independent re-encoding of the decoded state must equal the tool's "
             "file byte for byte, test-rewrite must reproduce it byte for byte, all copies identical, list agrees with the decoded state "
             "whichever copy is read. (2) States synthesised by the independent encoder with values at varint boundaries (positions, "
             "runs, sizes to 2^63-1, mtimes to 2^64-1, nsec invalid/0/max, inode 2^64-1, 4000-byte names): decode(rewrite(x)) == x and "
             "rewrite idempotent.",
        note="Synthesised models follow the normalisations the tool applies on save (format chosen by hash size/splits, 8 s time "
             "granularity, no info/deleted blocks at positions without files, disks recording nothing are unmapped).",
        design="DESIGN.md section 4, C10"),
    "C20": dict(
        category="exploration",
        technique="property-based testing (Hypothesis): list/dup/status/pool outputs compared with the independently parsed content file, the version store and the pool tree",
        engine="hypothesis-cli",
        text="Over generated histories and trees with duplicate groups, odd names (spaces, newlines, CR, colons, backslashes, glob "
             "characters, tag-like text, non-UTF-8) and pre-filled pool directories: list tag lines = recorded files/links (size, mtime, "
             "nsec), terminal lines unescape to the same names; dup groups = groups of identical fully synced non-empty files, never "
             "mixing different contents; status summary counters and per-stripe block lines = values computed from the parse; no name "
             "produces a raw line break in the tag log; pool = one link per recorded sub-path to a recording disk, stale links and empty "
             "dirs removed, foreign files kept, data disks untouched. One listed known finding (C20-pool-stale-link-over-dir) is "
             "recognised by signature.",
        note="A last stage corrupts blocks silently, scrubs and compares status with the content file (bad marks). Terminal listings are judged for names without line breaks (tag log is the program channel); pool is not judged when a "
             "sub-path is a file on one disk and a directory on another.",
        design="DESIGN.md section 4, C20"),
    "C15": dict(
        category="exploration",
        technique="property-based testing (Hypothesis) under a harness-owned clock (LD_PRELOAD shim); selection observed in the syscall trace and judged by a validity predicate; books predicted from the bytes on disk",
        engine="hypothesis-cli",
        text="Generated rounds (sync, scrub plans, silent corruption, fix -e, file changes) under a controlled clock shape the "
             "per-stripe check times and marks; a final scrub with a generated plan/percentage/age at a generated 'now' must read "
             "(parity reads in the trace) a set of stripes satisfying the plan predicate (bad always; full/new/bad exact; percentage: "
             "share, age limit, oldest first, quota used), and must update the info words exactly as the stripe's actual bytes demand "
             "(verified correct -> time=now, flags cleared; silent error -> bad; mismatch explained by a changed file / pending block "
             "-> untouched), leaving data and parity unchanged; repeated percentage scrubs with an advancing clock cover every stripe.",
        note="Non-split parity only; hash size >= 8; 'eventually' is checked as a bounded number of rounds.",
        design="DESIGN.md section 4, C15"),
    "C17": dict(
        category="exploration",
        technique="differential property-based testing (Hypothesis): twin arrays, single-file vs split parity, driven by the same generated program",
        engine="hypothesis-cli",
        text="The same generated program (growth and shrinkage across split boundaries, syncs incl. -F/-R/-B, scrub, loss of a single "
             "split file or a whole level followed by fix) runs on twin arrays; after every command the concatenation of the splits cut "
             "to their recorded sizes must be byte-identical to the single-file parity on every stripe holding blocks, recorded sizes "
             "are block multiples covered by the files, only the last used split grows and space is released from the end, the C06 "
             "oracle holds through the recorded mapping, exit statuses agree; finally a data disk or a single split file is lost and "
             "repaired to the snapshot, unused trailing splits are dropped from the configuration and dropping a used one is refused.",
        note="The per-split limit may be raised in the middle of a case (no split ever gets less room). 2..8 splits per level with unaligned per-split limits of 2..11 blocks; 'Insufficient parity space' refusals are trivial "
             "cases; alpha scan order and untrusted inodes keep the twins' allocation identical.",
        design="DESIGN.md section 4, C17"),
    "C18": dict(
        category="exploration",
        technique="property-based testing (Hypothesis): generated rule lists and colliding trees judged by a reference evaluator written from the manual; generated selection options on arrays with missing files",
        engine="hypothesis-cli",
        text="Rule lists (0..8 mixed include/exclude; FILE, DIR/, /PATH/FILE, /PATH/DIR/; * ? [] and escapes) over trees whose names "
             "collide with the patterns (glob characters, leading dots, spaces, newlines), with nohidden and content copies on data "
             "disks: after sync, list must equal the set the reference evaluator (lib/filterref.py, from manual sections 7.7 and 8) "
             "includes; configurations with a documented-invalid pattern must be rejected by every command; the tool's own files never "
             "enter the array. Selections: fix with generated -f/-d/-m on arrays with recoverable missing files restores exactly the "
             "selected missing files and leaves everything else byte-identical.",
        note="Paths where 'first match decides' and 'an excluded directory takes everything below' disagree are counted as ambiguous "
             "and not asserted; empty-directory inclusion and the -e selection are not asserted here (-e is exercised in C05/C12/C15).",
        design="DESIGN.md section 4, C18"),
    "C19": dict(
        category="exploration",
        technique="property-based testing (Hypothesis) with constructed decoys (same name/size/time-stamp, different bytes), syscall read traces and independent hashes",
        engine="hypothesis-cli",
        text="Decoys and true copies are planted on the same and other disks (name match, or full-path match when the sub-second "
             "time-stamp is zero), in import directories and among unsynced files of the array; sync is run plain, with pre-hash, with "
             "--force-nocopy and after an aborted sync; moves are made inside trusted disks (fake UUIDs) and across disks. A decoy must "
             "never be recorded as synced with inherited hashes (sync fails with 'Unexpected data change', blocks stay unsynced, every "
             "BLK hash equals the independent hash of the bytes on disk, C06 holds, -h leaves parity untouched, --force-nocopy then "
             "succeeds); moved files keep block map and hashes and need no reading when nothing else changed, every other new file is "
             "read completely; fix never restores from imported/searched data bytes that differ from the recorded version.",
        note="Decoy / copy entries may remove their source; offered decoys may share whole blocks with the lost file. Hash size 16 in decoy cases; trusted inodes only on the first two disks; using a valid import offer is not required "
             "(a stripe with another unrecoverable block is given up as a whole).",
        design="DESIGN.md section 4, C19"),
    "C08": dict(
        category="fault_enumeration",
        technique="fault injection over generated cases (LD_PRELOAD shim fails the n-th pread/pwrite of a generated data file or parity level with EIO/ENOSPC); stripe hit located from the syscall trace; independent content parse + C06 oracle",
        engine="hypothesis-cli",
        text="For generated arrays, pending sets, io cache depths (1, 3..128, default) and error limits, 1..3 I/O faults are injected "
             "into sync (data reads, parity writes) and scrub (data reads, parity reads). The command must exit non-zero with a "
             "diagnostic; the stripe of every fired fault that the command looked at must not be recorded as synced and healthy "
             "(pending block or bad mark; status shows it); every other stripe must be processed (C06 oracle) unless the run stopped "
             "at the error limit; fix -e + scrub -p bad, or the next sync, must leave no bad/unsynced stripe.",
        note="Scrub is also run on arrays with changes that were not synced (core clauses only). Non-split parity; faults that fired only in read-ahead beyond the stripe where the command stopped are not counted; "
             "quick samples faults, thorough uses the same generator with 12x the cases (not a full enumeration of every call).",
        design="DESIGN.md section 4, C08"),
    "C09": dict(
        category="fault_enumeration",
        technique="mutation sweep through a fork server around the tree's own loader (ASan+UBSan), a coverage-guided libFuzzer campaign on the same loader in-process (CRC oracle in the target), sampled CLI runs of the sanitizer build, and kill-point enumeration of the save sequence (LD_PRELOAD shim) with a syscall-trace order check",
        engine="hypothesis-cli + native/loader_harness.c + libFuzzer (native/content_fuzz.c)",
        text="Seed content files reached by random histories and synthesised with boundary values (both formats, all record kinds) are "
             "mutated inside the property's domain -- truncations, single-bit flips, byte substitutions, random multi-byte damage incl. "
             "varint-boundary patterns -- and each mutation is loaded in a forked child of an ASan/UBSan build of state_read: never "
             "loaded, never a sanitizer report or memory fault (~2*10^5 mutations quick; thorough enumerates all truncations, all bit "
             "flips and all 255 substitutions per byte of files up to 1.5 KiB). A sample is run through status/diff/list/check/sync/"
             "scrub/fix/dup, which must fail and change nothing. Saves by sync, scrub and touch with 1..7 copies are killed at "
             "state-changing calls: every copy stays a complete old, intermediate or new version; the trace shows write, fsync and a "
             "full read-back before each rename; after success all copies are identical and no .tmp is left.",
        note="Multi-byte mutations whose CRC-32C still matches are exempted (independent CRC); signal 9 / out-of-memory is inconclusive; "
             "durability against power loss is not simulated (order only). The libFuzzer campaign (30 s x 16 jobs quick, 15 min thorough) "
             "counts only crash-/leak- artifacts that reproduce 3 times from the saved input; oom/timeout/slow-unit artifacts are load noise.",
        design="DESIGN.md section 4, C09"),
    "C16": dict(
        category="other",
        technique="differential testing against a vendored reference corpus written by the pinned commit, plus property-based comparison of the hash/CRC code with independent implementations",
        engine="golden-corpus",
        text="16 reference arrays (both hash kinds, hash sizes 2/4/8/16, levels 1..6, z-parity, split layouts, three block sizes, "
             "content formats 2 and 3, a hash migration in progress, fragmented allocation, links/dirs/odd names) written by a build of "
             "commit e695936 are materialised from golden/: the current build must load them, check must verify every file and parity "
             "block, and after losing a data disk and an N-subset of devices (all single devices and 12 subsets in thorough) fix must "
             "restore the vendored bytes and time-stamps. 22190 stored digest / CRC / parity vectors are recomputed, and random inputs "
             "are hashed by the current code and by independent implementations.",
        note="The guarantee is as wide as the corpus and vectors; time-stamps are re-applied from the manifest; the corpus is never "
             "regenerated by a check (tools/mkgolden.py documents how it was made).",
        design="DESIGN.md section 4, C16"),
    "C13": dict(
        category="exploration",
        technique="schedule exploration by property-based testing: (a) the real io.c ring driven by stub workers with seeded delays and pattern canaries, (b) whole-program differential over cache depths / jittered schedules / scan modes, (c) ownership monitor over the -DSNAPRAID_VERIF hook trace",
        engine="hypothesis-cli + native/ring_harness.c + lib/ringmon.py",
        text="(a) native/ring_harness.c drives io_init/io_start/io_read_next/io_data_read/io_parity_read/io_write_preset/"
             "io_parity_write/io_write_next/io_stop exactly as sync and scrub do, with 1..12 readers, 1..6 writers, 1 and 3..128 "
             "slots, skipped stripes and writes, early stop, writer errors and seeded delays; every buffer carries a pattern derived "
             "from (stripe, worker) that is verified at hand-over and again after a delay; order, exactly-once and termination are "
             "checked (alarm). (b) the same array snapshot is synced / scrubbed under different cache depths, shim jitter seeds, hook "
             "yields and scan modes with frozen clock: exit status, parity bytes, decoded state, error tags and the set of parity "
             "writes (each exactly once) must equal the single-threaded run. (c) the hook trace of (a) and (b) is checked by a monitor "
             "of the slot ownership protocol (no read into a buffer the caller holds, no hand-over during a read, no write from a slot "
             "the caller computes in, writers only write the stripe handed over).",
        note="Schedules are sampled, not enumerated; a race window that no perturbation point straddles can be missed (an exhaustive "
             "model of the ring would be model checking, outside this study's technique).",
        design="DESIGN.md section 4, C13"),
}

NOT_YET = "check not built yet at this commit (planned in DESIGN.md section 4); not claimed until it runs"


def main():
    checks = []
    na = []
    for pid in sorted(TITLES):
        c = CHECKS.get(pid)
        if not c:
            na.append({"property_id": pid, "reason": NOT_YET})
            continue
        checks.append({
            "property_id": pid,
            "quick_cmd": "./check %s quick" % pid,
            "thorough_cmd": "./check %s thorough" % pid,
            "evidence_file": "/verif/evidence/%s.json" % pid,
            "replay_cmd_template": "./check %s --replay {path}" % pid,
            "engine": c["engine"],
            "level_claimed": {"category": c["category"], "text": c["text"], "design_ref": c["design"]},
            "level_note": c["note"],
            "technique": c["technique"],
        })
    hooks_commits = []
    hp = os.path.join(VERIF, "support", "hook_commits.txt")
    if os.path.exists(hp):
        hooks_commits = [l.strip() for l in open(hp) if l.strip()]
    m = {
        "version": 1,
        "setup_cmd": "python3-vt tools/setup.py",
        "hooks": {
            "guard": "SNAPRAID_VERIF",
            "enable": "tools/build.py compiles every variant out of tree from /repo's working tree with -DSNAPRAID_VERIF",
            "baseline_off_cmd": "make -C /repo check",
            "source_commits": hooks_commits,
            "add_only": True,
        },
        "engines": [
            {"name": "raidprop", "path": "native/raidprop.cpp", "serves_properties": ["C02", "C03"],
             "kind_free_text": "rapidcheck property tests + deterministic sweeps linked against /repo/raid objects"},
            {"name": "golden-corpus", "path": "props/c16.py", "serves_properties": ["C16"],
             "kind_free_text": "vendored reference arrays and vectors (golden/) replayed against the current build"},
            {"name": "hypothesis-cli", "path": "lib/pbt.py", "serves_properties": sorted(k for k, v in CHECKS.items() if v["engine"] == "hypothesis-cli"),
             "kind_free_text": "16 Hypothesis worker processes generating {config, program, fault} cases executed against the snapraid "
                               "binary built from /repo in private tmpfs arrays; oracles in lib/ (cfparse, hashes, gf256, parityoracle)"},
        ],
        "checks": checks,
        "not_applicable": na,
        "notes": "All checks are property-based / fuzzing checks: generated inputs, histories, fault points and schedules judged by "
                 "independent oracles. VERIF_SEED selects the pseudo-random stream; VERIF_REPO/VERIF_BUILD redirect the tree under test "
                 "(used only for sensitivity experiments in scratch worktrees). Exit 2 = infrastructure failure, never a verdict.",
    }
    extra = os.path.join(VERIF, "tools", "manifest_engines.json")
    if os.path.exists(extra):
        m["engines"] = json.load(open(extra))
    out = os.path.join(VERIF, "MANIFEST.json")
    with open(out, "w") as f:
        json.dump(m, f, indent=1)
        f.write("\n")
    try:
        import jsonschema
        jsonschema.validate(m, json.load(open("/root/.vp/MANIFEST.schema.json")))
        print("MANIFEST.json valid: %d checks, %d not claimed" % (len(checks), len(na)))
    except ImportError:
        print("written (jsonschema not available for validation)")


if __name__ == "__main__":
    main()
