#!/usr/bin/env python3
import json
import os
import sys
VERIF = os.path.dirname(os.path.dirname(os.path.abspath(__file__)))
sys.path.insert(0, os.path.join(VERIF, "lib"))
sys.path.insert(0, os.path.join(VERIF, "tools"))
sys.path.insert(0, os.path.join(VERIF, "props"))
import pbt

if __name__ == "__main__":
    modname, tier, seed, widx, ncases, outp, paths = sys.argv[1:8]
    sys.exit(pbt.worker_main(modname, tier, int(seed), int(widx), int(ncases), outp, json.loads(paths)))
