#!/usr/bin/env python3
"""prints the markdown table of seeded changes (DESIGN.md section 9) from seeded/*/meta.json"""
import glob, json, os
VERIF = os.path.dirname(os.path.dirname(os.path.abspath(__file__)))
print("| seeded change (`seeded/<id>/`) | what it does | needs | checks run | result |")
print("|---|---|---|---|---|")
for p in sorted(glob.glob(os.path.join(VERIF, "seeded", "*", "meta.json"))):
    m = json.load(open(p))
    print("| %s | %s | %s | %s | %s |" % (m["id"], m["what_it_changes"], m["needs_to_manifest"], ", ".join(m["checks_run"]), m["result"]))
