#!/usr/bin/env python3
"""Generates the reference corpus of C16 with a build of the PINNED commit (run once; outputs are vendored in golden/).

  VERIF_REPO=<worktree of e695936> VERIF_BUILD=<scratch> python3-vt tools/mkgolden.py

Never run by a check."""
import base64
import json
import os
import random
import shutil
import subprocess
import sys

VERIF = os.path.dirname(os.path.dirname(os.path.abspath(__file__)))
sys.path.insert(0, os.path.join(VERIF, "lib"))
sys.path.insert(0, os.path.join(VERIF, "tools"))
from common import build
from sandbox import default_cfg
from world import World

ARRAYS = [
    # name, cfg overrides, extra steps
    ("m3-h16-l1", dict(hash="murmur3", hashsize=16, levels=1, ndisks=2), []),
    ("sp-h16-l2", dict(hash="spooky2", hashsize=16, levels=2, ndisks=3), []),
    ("m3-h8-l3", dict(hash="murmur3", hashsize=8, levels=3, ndisks=3), []),
    ("sp-h4-l4", dict(hash="spooky2", hashsize=4, levels=4, ndisks=4), []),
    ("m3-h2-l5", dict(hash="murmur3", hashsize=2, levels=5, ndisks=4), []),
    ("sp-h16-l6", dict(hash="spooky2", hashsize=16, levels=6, ndisks=5), []),
    ("sp-h8-z3", dict(hash="spooky2", hashsize=8, levels=3, zparity=True, ndisks=3), []),
    ("m3-h16-z3", dict(hash="murmur3", hashsize=16, levels=3, zparity=True, ndisks=2), []),
    ("sp-h16-l2-split", dict(hash="spooky2", hashsize=16, levels=2, ndisks=3, splits=[3, 2], parity_limit=9000), []),
    ("m3-h4-l3-split", dict(hash="murmur3", hashsize=4, levels=3, ndisks=2, splits=[4, 2, 3], parity_limit=7000), []),
    ("sp-h2-l1-bs4", dict(hash="spooky2", hashsize=2, levels=1, ndisks=2, bs_kib=4), []),
    ("m3-h16-l2-bs2", dict(hash="murmur3", hashsize=16, levels=2, ndisks=2, bs_kib=2), []),
    ("migration-m3-to-sp", dict(hash="murmur3", hashsize=16, levels=2, ndisks=3), ["rehash"]),
    ("migration-sp-to-m3-h8", dict(hash="spooky2", hashsize=8, levels=3, ndisks=2), ["rehash"]),
    ("fragmented-hole", dict(hash="spooky2", hashsize=16, levels=2, ndisks=3), ["fragment"]),
    ("links-dirs-odd", dict(hash="murmur3", hashsize=16, levels=2, ndisks=2), ["odd"]),
]


def populate(w, rnd, nd, bs, odd):
    names = ["a", "b.bin", "dir/c", "dir/sub/d", "e f", "zero"]
    if odd:
        names += ["new\nline", "co:lon", "\xff\xfe", "sp ace/x"]
    for d in range(nd):
        for i, n in enumerate(names):
            size = [0, 1, bs - 1, bs, bs + 1, 3 * bs + 7, 5 * bs][(i + d) % 7] if n != "zero" else 0
            w.fs_step({"op": "create", "disk": d, "name": n, "size": size, "cseed": rnd.randrange(1 << 30), "kind": [0, 0, 3][i % 3], "ns0": (i + d) % 4 == 0})
    if odd:
        w.fs_step({"op": "symlink", "disk": 0, "name": "sl", "target": "a"})
        w.fs_step({"op": "symlink", "disk": 1 % nd, "name": "dir/dangling", "target": "../nowhere"})
        w.fs_step({"op": "hardlink", "disk": 0, "fi": 1, "name": "hl"})
        w.fs_step({"op": "mkdir", "disk": 0, "name": "emptydir/inner"})


def main():
    paths = build("rel", "vectool")
    out = os.path.join(VERIF, "golden")
    if os.path.exists(out):
        shutil.rmtree(out)
    os.makedirs(os.path.join(out, "arrays"))
    for name, over, extra in ARRAYS:
        cfg = default_cfg(**over)
        cfg["content"] = ["par", "par"]
        w = World(cfg, paths["rel"])
        rnd = random.Random(name)
        bs = cfg["bs_kib"] * 1024
        populate(w, rnd, cfg["ndisks"], bs, "odd" in extra)
        r = w.cmd("sync")
        assert r.rc == 0, (name, r.err)
        if "fragment" in extra:
            for d in range(cfg["ndisks"]):
                w.fs_step({"op": "delete", "disk": d, "fi": 1})
                w.fs_step({"op": "create", "disk": d, "name": "late%d" % d, "size": 4 * bs + 3, "cseed": 99 + d})
                w.fs_step({"op": "append", "disk": d, "fi": 0, "size": 2 * bs, "cseed": 5})
            assert w.cmd("sync").rc == 0
        if "rehash" in extra:
            w.arr.cfg["hash"] = "spooky2" if cfg["hash"] == "murmur3" else "murmur3"
            assert w.cmd("rehash").rc == 0
            assert w.cmd("scrub", ["-p", "40", "-o", "0"]).rc == 0
        assert w.cmd("check").rc == 0
        dst = os.path.join(out, "arrays", name)
        os.makedirs(dst)
        manifest = {"cfg": {k: v for k, v in w.arr.cfg.items() if k not in ("rules",)}, "entries": []}
        root = w.arr.rootb
        for dp, dn, fn in os.walk(root):
            rel = os.path.relpath(dp, root)
            if rel.startswith(b"logs") or rel.startswith(b"pool") or rel.startswith(b"imp"):
                continue
            for n in sorted(dn):
                full = os.path.join(dp, n)
                if os.path.islink(full):
                    manifest["entries"].append({"p": base64.b64encode(os.path.relpath(full, root)).decode(), "t": "l", "to": base64.b64encode(os.readlink(full)).decode()})
                else:
                    manifest["entries"].append({"p": base64.b64encode(os.path.relpath(full, root)).decode(), "t": "d"})
            for n in sorted(fn):
                full = os.path.join(dp, n)
                relp = os.path.relpath(full, root)
                if relp in (b"snapraid.conf",) or relp.endswith(b".lock"):
                    continue
                st = os.lstat(full)
                if os.path.islink(full):
                    manifest["entries"].append({"p": base64.b64encode(relp).decode(), "t": "l", "to": base64.b64encode(os.readlink(full)).decode()})
                    continue
                data = open(full, "rb").read()
                manifest["entries"].append({"p": base64.b64encode(relp).decode(), "t": "f", "mt": st.st_mtime_ns, "ino": st.st_ino,
                                            "data": base64.b64encode(data).decode()})
        with open(os.path.join(dst, "manifest.json"), "w") as f:
            json.dump(manifest, f)
        print(name, len(manifest["entries"]), "entries")
        w.destroy()
    for v in ("hashvec", "crcvec", "parvec"):
        data = subprocess.run([paths["vectool"], v], stdout=subprocess.PIPE, check=True).stdout
        with open(os.path.join(out, v + ".txt"), "wb") as f:
            f.write(data)
        print(v, len(data.splitlines()), "vectors")
    commit = subprocess.run(["git", "-C", os.environ.get("VERIF_REPO", "/repo"), "rev-parse", "HEAD"], stdout=subprocess.PIPE, text=True).stdout.strip()
    with open(os.path.join(out, "README"), "w") as f:
        f.write("Reference corpus for C16, produced by tools/mkgolden.py with a build of commit %s.\nNever regenerated by a check.\n" % commit)


if __name__ == "__main__":
    main()
