#!/usr/bin/env python3
"""Build every artefact the checks need from the CURRENT working tree of the
repository (env VERIF_REPO, default /repo), out of tree, into <verif>/build.

Objects are cached by (source bytes, all header bytes, flags), so an unchanged
tree costs milliseconds and an edited source costs one compile.

usage: build.py <variant> [<variant> ...]      prints JSON {variant: {...paths}}
variants: rel san objs objs_san raid raid_san fuzz shim
"""
import hashlib
import json
import os
import re
import subprocess
import sys
import fcntl
import shutil
from concurrent.futures import ThreadPoolExecutor

VERIF = os.path.dirname(os.path.dirname(os.path.abspath(__file__)))
REPO = os.environ.get("VERIF_REPO", "/repo")
BUILD = os.environ.get("VERIF_BUILD", os.path.join(VERIF, "build"))
GUARD = "SNAPRAID_VERIF"

UBSAN = "bounds,null,pointer-overflow,vla-bound,return,unreachable,object-size"

COMMON = ["-DHAVE_CONFIG_H", "-D" + GUARD, "-pthread", "-fno-common", "-g", "-w"]
VARIANTS = {
    # name: (compiler, cflags, ldflags)
    "rel": ("gcc", ["-O2", "-fno-omit-frame-pointer"], []),
    "san": ("clang", ["-O1", "-fno-omit-frame-pointer", "-fsanitize=address",
                      "-fsanitize=" + UBSAN, "-fno-sanitize-recover=all"],
            ["-fsanitize=address", "-fsanitize=" + UBSAN]),
    "objs": ("gcc", ["-O2", "-fno-omit-frame-pointer", "-Dmain=snapraid_main"], []),
    "objs_san": ("clang", ["-O1", "-fno-omit-frame-pointer", "-fsanitize=address",
                           "-fsanitize=" + UBSAN, "-fno-sanitize-recover=all",
                           "-Dmain=snapraid_main"],
                 ["-fsanitize=address", "-fsanitize=" + UBSAN]),
    "fuzz": ("clang", ["-O1", "-fno-omit-frame-pointer",
                       "-fsanitize=fuzzer-no-link,address", "-fsanitize=" + UBSAN,
                       "-fno-sanitize-recover=all", "-Dmain=snapraid_main"],
             ["-fsanitize=fuzzer,address", "-fsanitize=" + UBSAN]),
}


def sh(cmd, **kw):
    r = subprocess.run(cmd, stdout=subprocess.PIPE, stderr=subprocess.STDOUT, **kw)
    if r.returncode != 0:
        sys.stderr.write("BUILD FAILED: %s\n%s\n" % (" ".join(cmd), r.stdout.decode(errors="replace")))
        raise SystemExit(2)
    return r.stdout


def snapraid_sources():
    txt = open(os.path.join(REPO, "Makefile.am")).read()
    m = re.search(r"snapraid_SOURCES\s*=\s*\\\n((?:[^\n]*\\\n)*[^\n]*\n)", txt)
    out = []
    for tok in m.group(1).replace("\\", " ").split():
        if tok.endswith(".c"):
            out.append(tok)
    return out


def file_hash(path):
    """hash of a source file and of the .c files it textually includes (util.c includes murmur3.c, spooky2.c, ...)"""
    h = hashlib.sha256()
    seen = set()

    def add(p):
        if p in seen or not os.path.exists(p):
            return
        seen.add(p)
        data = open(p, "rb").read()
        h.update(data)
        for m in re.finditer(rb'#\s*include\s+"([^"]+\.c)"', data):
            add(os.path.join(os.path.dirname(p), m.group(1).decode()))
    add(path)
    return h.hexdigest()


_hdr_hash = None


def headers_hash(incdir):
    global _hdr_hash
    if _hdr_hash is None:
        h = hashlib.sha256()
        for d in ("cmdline", "raid", "tommyds"):
            dd = os.path.join(REPO, d)
            for fn in sorted(os.listdir(dd)):
                # tommyds/*.c are #included by tommy.c
                if fn.endswith(".h") or (d == "tommyds" and fn.endswith(".c")):
                    h.update(fn.encode())
                    h.update(open(os.path.join(dd, fn), "rb").read())
        h.update(open(os.path.join(incdir, "config.h"), "rb").read())
        _hdr_hash = h.hexdigest()
    return _hdr_hash


def prepare_include():
    inc = os.path.join(BUILD, "include")
    os.makedirs(inc, exist_ok=True)
    src = os.path.join(REPO, "config.h")
    if not os.path.exists(src):
        src = os.path.join("/repo", "config.h")
    if not os.path.exists(src):
        src = os.path.join(VERIF, "support", "config.h")
    data = open(src, "rb").read()
    dst = os.path.join(inc, "config.h")
    if not os.path.exists(dst) or open(dst, "rb").read() != data:
        with open(dst + ".tmp", "wb") as f:
            f.write(data)
        os.replace(dst + ".tmp", dst)
    return inc


def compile_objects(variant, sources, extra_flags=()):
    cc, cflags, _ = VARIANTS[variant]
    inc = prepare_include()
    flags = COMMON + cflags + list(extra_flags) + ["-I", inc, "-I", REPO]
    hh = headers_hash(inc)
    cache = os.path.join(BUILD, "cache")
    os.makedirs(cache, exist_ok=True)
    jobs = []
    objs = []
    for s in sources:
        sp = s if os.path.isabs(s) else os.path.join(REPO, s)
        # the repository path is part of the include flags but must not change
        # the cache key for identical content
        keyflags = [f for f in flags if f != REPO]
        key = hashlib.sha256((cc + " ".join(keyflags) + hh + file_hash(sp) + s).encode()).hexdigest()[:32]
        o = os.path.join(cache, key + ".o")
        objs.append(o)
        if not os.path.exists(o):
            jobs.append((sp, o))

    def one(j):
        sp, o = j
        tmp = o + ".%d.tmp" % os.getpid()
        sh([cc] + flags + ["-c", sp, "-o", tmp])
        os.replace(tmp, o)
    if jobs:
        with ThreadPoolExecutor(16) as ex:
            list(ex.map(one, jobs))
    return objs


def link(variant, objs, out, libs=("-lblkid", "-lm"), cxx=False, extra=()):
    cc, _, ld = VARIANTS[variant]
    if cxx:
        cc = {"gcc": "g++", "clang": "clang++"}[cc]
    key = hashlib.sha256((" ".join(objs) + " ".join(ld) + " ".join(libs) + " ".join(extra)).encode()).hexdigest()
    stamp = out + ".stamp"
    if os.path.exists(out) and os.path.exists(stamp) and open(stamp).read() == key:
        return out
    os.makedirs(os.path.dirname(out), exist_ok=True)
    tmp = out + ".%d.tmp" % os.getpid()
    sh([cc, "-pthread", "-rdynamic"] + list(ld) + ["-o", tmp] + list(objs) + list(extra) + list(libs))
    os.replace(tmp, out)
    with open(stamp, "w") as f:
        f.write(key)
    return out


RAID_SOURCES = ["raid/raid.c", "raid/check.c", "raid/module.c", "raid/tables.c", "raid/int.c",
                "raid/x86.c", "raid/intz.c", "raid/x86z.c", "raid/helper.c", "raid/memory.c",
                "raid/tag.c"]


def native(name, variant, srcs, with_objs, cxx=False, libs=("-lblkid", "-lm"), cflags=()):
    """compile native harness sources (in VERIF/native) and link with repo objects"""
    cc, vflags, ld = VARIANTS[variant]
    inc = prepare_include()
    cache = os.path.join(BUILD, "cache")
    hobjs = []
    for s in srcs:
        sp = os.path.join(VERIF, "native", s)
        iscxx = s.endswith(".cpp")
        comp = {"gcc": "g++", "clang": "clang++"}[cc] if iscxx else cc
        fl = ["-D" + GUARD, "-DHAVE_CONFIG_H", "-pthread", "-g", "-w"] + [f for f in vflags if not f.startswith("-Dmain")] + list(cflags)
        if iscxx:
            fl += ["-std=gnu++17"]
        fl += ["-I", inc, "-I", REPO, "-I", os.path.join(REPO, "cmdline"), "-I", os.path.join(VERIF, "native")]
        deps = ""
        for fn in sorted(os.listdir(os.path.join(VERIF, "native"))):
            if fn.endswith(".h") or fn.endswith(".inc"):
                deps += file_hash(os.path.join(VERIF, "native", fn))
        key = hashlib.sha256((comp + " ".join(f for f in fl if f != REPO and not f.startswith(REPO)) + headers_hash(inc) + file_hash(sp) + deps).encode()).hexdigest()[:32]
        o = os.path.join(cache, key + ".o")
        if not os.path.exists(o):
            tmp = o + ".%d.tmp" % os.getpid()
            sh([comp] + fl + ["-c", sp, "-o", tmp])
            os.replace(tmp, o)
        hobjs.append(o)
    out = os.path.join(BUILD, "bin", name)
    return link(variant, hobjs + list(with_objs), out, libs=libs, cxx=cxx or any(s.endswith(".cpp") for s in srcs))


def build_variant(v):
    res = {}
    if v in ("rel", "san"):
        objs = compile_objects(v, snapraid_sources())
        res[v] = link(v, objs, os.path.join(BUILD, "bin", "snapraid_" + v))
    elif v == "shim":
        src = os.path.join(VERIF, "shim", "verifshim.c")
        out = os.path.join(BUILD, "bin", "libverifshim.so")
        key = file_hash(src)
        stamp = out + ".stamp"
        if not (os.path.exists(out) and os.path.exists(stamp) and open(stamp).read() == key):
            os.makedirs(os.path.dirname(out), exist_ok=True)
            tmp = out + ".%d.tmp" % os.getpid()
            sh(["gcc", "-O2", "-g", "-fPIC", "-shared", "-pthread", "-o", tmp, src, "-ldl"])
            os.replace(tmp, out)
            open(stamp, "w").write(key)
        res["shim"] = out
    elif v == "oracle":
        src = os.path.join(VERIF, "native", "oracle.c")
        out = os.path.join(BUILD, "bin", "liboracle.so")
        key = file_hash(src)
        stamp = out + ".stamp"
        if not (os.path.exists(out) and os.path.exists(stamp) and open(stamp).read() == key):
            os.makedirs(os.path.dirname(out), exist_ok=True)
            tmp = out + ".%d.tmp" % os.getpid()
            sh(["gcc", "-O2", "-g", "-fPIC", "-shared", "-o", tmp, src])
            os.replace(tmp, out)
            open(stamp, "w").write(key)
        res["oracle"] = out
    elif v == "raidprop":
        objs = compile_objects("rel", RAID_SOURCES)
        res["raidprop"] = native("raidprop", "rel", ["raidprop.cpp"], objs, cxx=True, libs=("-lrapidcheck",))
    elif v == "raidprop_san":
        objs = compile_objects("san", RAID_SOURCES)
        res["raidprop_san"] = native("raidprop_san", "san", ["raidprop.cpp"], objs, cxx=True, libs=("-lrapidcheck",))
    elif v == "vectool":
        srcs = RAID_SOURCES + ["cmdline/util.c", "cmdline/support.c", "cmdline/unix.c", "cmdline/mingw.c"]
        objs = compile_objects("rel", srcs)
        res["vectool"] = native("vectool", "rel", ["vectool.c"], objs)
    elif v in ("loader", "loader_san"):
        ov = "objs" if v == "loader" else "objs_san"
        objs = compile_objects(ov, snapraid_sources())
        res[v] = native(v, ov, ["loader_harness.c"], objs)
    elif v == "ring":
        objs = compile_objects("objs", snapraid_sources())
        res[v] = native(v, "objs", ["ring_harness.c"], objs)
    elif v == "filter":
        objs = compile_objects("objs", snapraid_sources())
        res[v] = native(v, "objs", ["filter_harness.c"], objs)
    elif v == "codec_fuzz":
        objs = compile_objects("fuzz", snapraid_sources())
        res[v] = native(v, "fuzz", ["codec_fuzz.c"], objs)
    elif v == "content_fuzz":
        objs = compile_objects("fuzz", snapraid_sources())
        res[v] = native(v, "fuzz", ["content_fuzz.c"], objs, libs=("-lblkid", "-lm", "-Wl,--wrap=exit", "-Wl,--wrap=os_abort"))
    else:
        raise SystemExit("unknown variant " + v)
    return res


def build(variants):
    os.makedirs(BUILD, exist_ok=True)
    lock = open(os.path.join(BUILD, ".lock"), "w")
    fcntl.flock(lock, fcntl.LOCK_EX)
    try:
        out = {}
        for v in variants:
            out.update(build_variant(v))
        return out
    finally:
        fcntl.flock(lock, fcntl.LOCK_UN)
        lock.close()


if __name__ == "__main__":
    print(json.dumps(build(sys.argv[1:] or ["rel"]), indent=1))
