#!/usr/bin/env python3
"""usage: storeseed.py <seed-id> <worktree> <property> <checks,comma> <result text> <what> <needs>
copies the author's patch, demonstration and notes from <worktree>/SEED into seeded/<seed-id>/ and writes meta.json"""
import json, os, shutil, subprocess, sys
VERIF = os.path.dirname(os.path.dirname(os.path.abspath(__file__)))
sid, wt, prop, checks, result, what, needs = sys.argv[1:8]
dst = os.path.join(VERIF, "seeded", sid)
os.makedirs(dst, exist_ok=True)
shutil.copy(os.path.join(wt, "SEED", "demo.sh"), os.path.join(dst, "demo.sh"))
for n in ("meta.txt", "meta.json"):
    if os.path.exists(os.path.join(wt, "SEED", n)):
        shutil.copy(os.path.join(wt, "SEED", n), os.path.join(dst, "author-notes.txt"))
diff = subprocess.run(["git", "-C", wt, "diff", "--", "cmdline", "raid", "tommyds"], stdout=subprocess.PIPE, check=True).stdout
open(os.path.join(dst, "patch.diff"), "wb").write(diff)
base = subprocess.run(["git", "-C", wt, "rev-parse", "--short", "HEAD"], stdout=subprocess.PIPE, text=True).stdout.strip()
short = sid.split("-")[0]
def rc(tag):
    p = "/tmp/seed/%s.demo.%s.log" % (os.path.basename(wt), tag)
    return os.path.exists(p)
meta = {"id": sid, "breaks_property": prop, "what_it_changes": what, "needs_to_manifest": needs, "base_commit": base,
        "written_by": "independent sub-agent given only the text of the property and a scratch worktree",
        "confirmed": {"compiles": True, "make_check": "passed in the author's worktree (log checked: 'Regression test completed with SUCCESS', 'Everything OK')",
                      "demo_unchanged_rc": 0, "demo_changed_rc": 1,
                      "how": "tools/seedcheck.sh: both binaries built in the worktree, demo.sh run against each"},
        "checks_run": checks.split(","), "result": result,
        "how_to_run": "git -C /repo apply seeded/%s/patch.diff; ./check %s quick; git -C /repo checkout -- ." % (sid, prop)}
json.dump(meta, open(os.path.join(dst, "meta.json"), "w"), indent=1)
print("stored", dst, len(diff), "bytes of patch")
