#!/bin/bash
# usage: seedsweep.sh [seed-id-prefix ...]   -- applies every seeded change (or those named) to a scratch worktree of /repo HEAD,
# runs the quick tier of the property it targets against that tree and prints one line per change.  /repo is never touched.
wt=/tmp/seedrun
cd /verif
git -C /repo worktree remove --force $wt >/dev/null 2>&1
tools/mkseedwt.sh seedrun-tmp >/dev/null 2>&1 && mv /tmp/seed/seedrun-tmp $wt && git -C /repo worktree repair $wt >/dev/null 2>&1
for d in seeded/*/; do
  id=$(basename $d)
  if [ $# -gt 0 ]; then m=0; for p in "$@"; do case $id in $p*) m=1;; esac; done; [ $m = 1 ] || continue; fi
  prop=$(python3 -c "import json;print(json.load(open('$d/meta.json'))['breaks_property'])")
  git -C $wt checkout -q -- . ; git -C $wt apply $PWD/$d/patch.diff || { echo "$id: PATCH DOES NOT APPLY"; continue; }
  out=$(VERIF_EVIDENCE_DIR=/tmp/seed-evidence VERIF_REPO=$wt VERIF_BUILD=/tmp/seedrun-vb VERIF_SEED=${VERIF_SEED:-0} ./check $prop quick 2>&1); rc=$?
  echo "$id: $prop quick rc=$rc $(echo "$out" | grep -A1 VIOLATION | sed -n 2p | cut -c1-160)"
done
git -C /repo worktree remove --force $wt; rm -rf /tmp/seedrun-vb
