#!/bin/sh
# usage: tools/sweep.sh "<ids>" "<seeds>" [tier]   -- run checks over several seeds, print one line each
tier=${3:-quick}
for id in $1; do for s in $2; do
  out=$(VERIF_SEED=$s ./check $id $tier 2>&1); rc=$?
  echo "$id seed=$s rc=$rc $(echo "$out" | grep -E 'VIOLATION|INFRA|^OK|KNOWN' | head -3 | tr '\n' ' ')"
done; done
