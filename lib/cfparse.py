"""Independent decoder of SnapRAID content files (formats SNAPCNT2 / SNAPCNT3).

Written from the record layout; does not use any code of the repository.  The
decoder is strict: anything a tool-written file cannot contain raises ContentError.

Model returned by parse():
  Content(version, block_size, blockmax, hash_size, hash=(kind, seed), prevhash=None|(kind, seed),
          maps=[Map], parities={level: Parity}, disks={name: Disk}, disk_order=[name...],
          info=[None | Info]*blockmax, info_oldest)
"""
import struct

from hashes import crc32c

BLK, CHG, REP, DELETED = "blk", "chg", "rep", "deleted"
STATE_OF = {ord("b"): BLK, ord("g"): CHG, ord("p"): REP, ord("n"): CHG}
HASHKIND = {ord("u"): "murmur3", ord("k"): "spooky2", ord("m"): "metro"}
NSEC_INVALID = -1


class ContentError(Exception):
    pass


class Obj(object):
    def __init__(self, **kw):
        self.__dict__.update(kw)

    def __repr__(self):
        return "%s(%s)" % (type(self).__name__, ", ".join("%s=%r" % kv for kv in sorted(self.__dict__.items())))

    def __eq__(self, other):
        return type(self) is type(other) and self.__dict__ == other.__dict__

    def __ne__(self, other):
        return not self == other

    def todict(self):
        def conv(v):
            if isinstance(v, Obj):
                return v.todict()
            if isinstance(v, (list, tuple)):
                return [conv(x) for x in v]
            if isinstance(v, dict):
                return {(k.decode("latin-1") if isinstance(k, bytes) else k): conv(x) for k, x in v.items()}
            if isinstance(v, bytes):
                return v.hex() if len(v) in (2, 4, 8, 16) and not v.isalnum() else v.decode("latin-1")
            return v
        return {k: conv(v) for k, v in self.__dict__.items()}


class Content(Obj):
    pass


class Map(Obj):
    pass


class Parity(Obj):
    pass


class Disk(Obj):
    pass


class File(Obj):
    pass


class Link(Obj):
    pass


class Info(Obj):
    pass


class Reader(object):
    def __init__(self, data):
        self.d = data
        self.p = 0

    def eof(self):
        return self.p >= len(self.d)

    def byte(self):
        if self.p >= len(self.d):
            raise ContentError("unexpected end of file at %d" % self.p)
        b = self.d[self.p]
        self.p += 1
        return b

    def raw(self, n):
        if self.p + n > len(self.d):
            raise ContentError("unexpected end of file at %d (wanted %d bytes)" % (self.p, n))
        b = self.d[self.p:self.p + n]
        self.p += n
        return b

    def b32(self):
        v = 0
        s = 0
        while True:
            b = self.byte()
            if b & 0x80:
                v |= (b & 0x7f) << s
                break
            v |= b << s
            s += 7
            if s >= 32:
                raise ContentError("32-bit varint too long at %d" % self.p)
        if v >> 32:
            raise ContentError("32-bit varint overflow at %d" % self.p)
        return v

    def b64(self):
        v = 0
        s = 0
        while True:
            b = self.byte()
            if b & 0x80:
                v |= (b & 0x7f) << s
                break
            v |= b << s
            s += 7
            if s >= 64:
                raise ContentError("64-bit varint too long at %d" % self.p)
        if v >> 64:
            raise ContentError("64-bit varint overflow at %d" % self.p)
        return v

    def bs(self, maxlen=4096):
        n = self.b32()
        if n + 1 > maxlen:
            raise ContentError("string too long at %d" % self.p)
        return self.raw(n)


def parse(data):
    r = Reader(data)
    head = r.raw(12)
    if head == b"SNAPCNT2\n\x03\x00\x00":
        version = 2
    elif head == b"SNAPCNT3\n\x03\x00\x00":
        version = 3
    else:
        raise ContentError("bad header %r" % head)
    c = Content(version=version, block_size=None, blockmax=None, hash_size=16, hash=None, prevhash=None,
                maps=[], parities={}, disks={}, disk_order=[], info=None, info_oldest=None)
    crc_ok = False

    def disk_of(idx):
        if idx >= len(c.maps):
            raise ContentError("mapping index %d out of range" % idx)
        name = c.maps[idx].name
        if name not in c.disks:
            c.disks[name] = Disk(name=name, mapping=idx, files=[], links=[], dirs=[], deleted={}, closed=False)
            c.disk_order.append(name)
        d = c.disks[name]
        return d

    while not r.eof():
        if crc_ok:
            raise ContentError("data after the CRC record")
        cmd = r.byte()
        if cmd == ord("z"):
            c.block_size = r.b32()
            if c.block_size == 0:
                raise ContentError("zero block size")
        elif cmd == ord("x"):
            c.blockmax = r.b32()
        elif cmd == ord("y"):
            c.hash_size = r.b32()
            if c.hash_size < 2 or c.hash_size > 16:
                raise ContentError("bad hash size")
        elif cmd in (ord("c"), ord("C")):
            k = r.byte()
            if k not in HASHKIND:
                raise ContentError("bad hash kind")
            seed = r.raw(16)
            if cmd == ord("c"):
                c.hash = (HASHKIND[k], seed)
            else:
                c.prevhash = (HASHKIND[k], seed)
        elif cmd == ord("M"):
            name = r.bs()
            pos = r.b32()
            total = r.b32()
            free = r.b32()
            uuid = r.bs(128)
            c.maps.append(Map(name=name, position=pos, total_blocks=total, free_blocks=free, uuid=uuid))
        elif cmd == ord("P"):
            lev = r.b32()
            total = r.b32()
            free = r.b32()
            uuid = r.bs(128)
            if lev >= 6:
                raise ContentError("bad parity level")
            c.parities[lev] = Parity(level=lev, total_blocks=total, free_blocks=free, splits=[Obj(path=None, uuid=uuid, size=None)], kind="P")
        elif cmd == ord("Q"):
            lev = r.b32()
            total = r.b32()
            free = r.b32()
            n = r.b32()
            if lev >= 6:
                raise ContentError("bad parity level")
            if n > 8:
                raise ContentError("too many splits")
            sp = []
            for _ in range(n):
                path = r.bs()
                uuid = r.bs(128)
                size = r.b64()
                if size == 0xFFFFFFFFFFFFFFFF:
                    size = None   # "not set yet" (written as -1): the size is then taken from the file
                sp.append(Obj(path=path, uuid=uuid, size=size))
            c.parities[lev] = Parity(level=lev, total_blocks=total, free_blocks=free, splits=sp, kind="Q")
        elif cmd == ord("f"):
            if c.block_size is None or c.blockmax is None:
                raise ContentError("file before block size")
            d = disk_of(r.b32())
            size = r.b64()
            if size // c.block_size > c.blockmax:
                raise ContentError("file size too big")
            mt = r.b64()
            ns = r.b32()
            ns = NSEC_INVALID if ns == 0 else ns - 1
            inode = r.b64()
            sub = r.bs()
            if not sub:
                raise ContentError("null file name")
            nblk = (size + c.block_size - 1) // c.block_size
            blocks = []
            while len(blocks) < nblk:
                k = r.byte()
                if k not in STATE_OF:
                    raise ContentError("bad block type %r at %d" % (chr(k), r.p))
                pos = r.b32()
                cnt = r.b32()
                if cnt == 0:
                    raise ContentError("empty block run")
                if len(blocks) + cnt > nblk:
                    raise ContentError("block run beyond file")
                if pos + cnt > c.blockmax:
                    raise ContentError("block position beyond blockmax")
                for i in range(cnt):
                    h = r.raw(c.hash_size) if k != ord("n") else b"\xff" * c.hash_size
                    blocks.append((pos + i, STATE_OF[k], h))
            d.files.append(File(sub=sub, size=size, mtime_sec=mt, mtime_nsec=ns, inode=inode, blocks=blocks))
        elif cmd in (ord("s"), ord("a")):
            d = disk_of(r.b32())
            sub = r.bs()
            to = r.bs()
            if not sub:
                raise ContentError("null link name")
            if cmd == ord("a") and not to:
                raise ContentError("empty hardlink target")
            d.links.append(Link(kind="symlink" if cmd == ord("s") else "hardlink", sub=sub, linkto=to))
        elif cmd == ord("r"):
            d = disk_of(r.b32())
            sub = r.bs()
            if not sub:
                raise ContentError("null dir name")
            d.dirs.append(sub)
        elif cmd == ord("h"):
            d = disk_of(r.b32())
            if d.closed:
                raise ContentError("two hole records for one disk")
            d.closed = True
            pos = 0
            while pos < c.blockmax:
                cnt = r.b32()
                if cnt == 0:
                    raise ContentError("empty hole run")
                if pos + cnt > c.blockmax:
                    raise ContentError("hole run beyond blockmax")
                k = r.byte()
                if k == ord("o"):
                    for i in range(cnt):
                        d.deleted[pos + i] = r.raw(c.hash_size)
                elif k != ord("O"):
                    raise ContentError("bad hole type")
                pos += cnt
        elif cmd == ord("i"):
            if c.info is not None:
                raise ContentError("two info records")
            c.info_oldest = r.b32()
            info = []
            while len(info) < c.blockmax:
                cnt = r.b32()
                if cnt == 0:
                    raise ContentError("empty info run")
                if len(info) + cnt > c.blockmax:
                    raise ContentError("info run beyond blockmax")
                flag = r.b32()
                if flag & 1:
                    t = r.b32()
                    if flag & ~15:
                        raise ContentError("unknown info flag")
                    v = Info(time=(t + c.info_oldest) & 0xFFFFFFFF, bad=bool(flag & 2), rehash=bool(flag & 4), justsynced=bool(flag & 8))
                    if v.rehash and c.prevhash is None:
                        raise ContentError("rehash without previous hash")
                else:
                    if flag != 0:
                        raise ContentError("info flags without presence bit")
                    v = None
                info.extend([v] * cnt)
            c.info = info
        elif cmd == ord("N"):
            computed = crc32c(data[:r.p])
            stored = struct.unpack("<I", r.raw(4))[0]
            if stored != computed:
                raise ContentError("CRC mismatch: stored %08x computed %08x" % (stored, computed))
            crc_ok = True
        else:
            raise ContentError("invalid command %r at %d" % (cmd, r.p - 1))
    if not crc_ok:
        raise ContentError("no CRC record (truncated)")
    if c.block_size is None or c.blockmax is None or c.hash is None:
        raise ContentError("missing z/x/c record")
    if c.info is None:
        c.info = [None] * c.blockmax
    check_structure(c)
    return c


def check_structure(c):
    """invariants every loadable content file satisfies (C06 structural part, C10)"""
    used_max = 0
    for name, d in c.disks.items():
        seen = {}
        for f in d.files:
            last = -1
            for (pos, st, h) in f.blocks:
                if pos in seen:
                    raise ContentError("disk %r: position %d used by %r and %r" % (name, pos, seen[pos], f.sub))
                seen[pos] = f.sub
                if pos <= last:
                    raise ContentError("disk %r file %r: block positions not increasing" % (name, f.sub))
                last = pos
                used_max = max(used_max, pos + 1)
        for pos in d.deleted:
            if pos in seen:
                raise ContentError("disk %r: deleted block at %d overlaps file %r" % (name, pos, seen[pos]))
        names = [f.sub for f in d.files]
        if len(set(names)) != len(names):
            raise ContentError("disk %r: duplicate file name" % name)
    if used_max != c.blockmax:
        raise ContentError("blockmax %d but highest used position+1 is %d" % (c.blockmax, used_max))
    # every position holding a synced-or-pending file block or deleted block needs an info word
    for name, d in c.disks.items():
        for f in d.files:
            for (pos, st, h) in f.blocks:
                if st in (BLK,) and c.info[pos] is None:
                    raise ContentError("position %d has a synced block but no info" % pos)


def load(path):
    with open(path, "rb") as f:
        return parse(f.read())


# ---- derived views -------------------------------------------------------------------------

def position_table(c):
    """{pos: {diskname: (state, hash, file or None, index_in_file)}} for all used positions"""
    tab = {}
    for name, d in c.disks.items():
        for f in d.files:
            for i, (pos, st, h) in enumerate(f.blocks):
                tab.setdefault(pos, {})[name] = (st, h, f, i)
        for pos, h in d.deleted.items():
            tab.setdefault(pos, {})[name] = (DELETED, h, None, 0)
    return tab


def synced_positions(c):
    """positions where all allocated blocks are BLK (>=1 block)"""
    out = []
    for pos, row in sorted(position_table(c).items()):
        if all(v[0] == BLK for v in row.values()):
            out.append(pos)
    return out


def has_unsynced(c):
    for d in c.disks.values():
        if d.deleted:
            return True
        for f in d.files:
            for (_, st, _) in f.blocks:
                if st != BLK:
                    return True
    return False
