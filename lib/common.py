"""Shared plumbing of the check driver: paths, build, evidence, replay files,
known findings, verdict output."""
import hashlib
import json
import os
import subprocess
import sys
import time

VERIF = os.path.dirname(os.path.dirname(os.path.abspath(__file__)))
REPO = os.environ.get("VERIF_REPO", "/repo")
NPROC = int(os.environ.get("VERIF_JOBS", "16"))

sys.path.insert(0, os.path.join(VERIF, "tools"))
sys.path.insert(0, os.path.join(VERIF, "lib"))


def build(*variants):
    """(re)build from the repository's current working tree; returns {variant: path}"""
    import build as _b
    return _b.build(list(variants))


def mix_seed(seed, *parts):
    h = hashlib.sha256(("%d|" % seed + "|".join(str(p) for p in parts)).encode()).digest()
    return int.from_bytes(h[:4], "big") & 0x7FFFFFFF


def scratch_base():
    for d in ("/dev/shm", os.environ.get("TMPDIR", "/tmp")):
        if os.path.isdir(d) and os.access(d, os.W_OK):
            return d
    return "/tmp"


class KnownFindings:
    """known_findings.json: {"findings":[{"property":..,"id":..,"signature":{..},"what":..}], "fixed":[...]}
    Never written at run time."""

    def __init__(self):
        p = os.path.join(VERIF, "known_findings.json")
        self.data = {"findings": [], "fixed": []}
        if os.path.exists(p):
            self.data = json.load(open(p))

    def for_property(self, pid):
        return [f for f in self.data.get("findings", []) if f["property"] == pid]


class Result:
    """collects what a check run covered and produces evidence + exit status"""

    def __init__(self, pid, tier, seed, level):
        self.pid, self.tier, self.seed, self.level = pid, tier, seed, level
        self.t0 = time.time()
        self.evaluations = 0
        self.fingerprints = set()
        self.nontrivial = 0
        self.classes = {}
        self.samples = []
        self.rule = ""
        self.assumptions = []
        self.extra = {}
        self.violations = []      # list of (replay_path, what)
        self.known_hits = {}      # finding id -> count
        self.inconclusive = 0
        self.flaky = []
        self.exhaustive = None
        self.explanation = None

    def add_case(self, fingerprint=None, nontrivial=False, classes=(), sample=None):
        self.evaluations += 1
        if nontrivial:
            self.nontrivial += 1
            if fingerprint is not None:
                self.fingerprints.add(fingerprint)
        for c in classes:
            self.classes[c] = self.classes.get(c, 0) + 1
        if sample is not None and len(self.samples) < 5:
            self.samples.append(sample)

    def merge_counts(self, evaluations, distinct_fps, nontrivial, classes, samples):
        self.evaluations += evaluations
        self.nontrivial += nontrivial
        self.fingerprints.update(distinct_fps)
        for k, v in classes.items():
            self.classes[k] = self.classes.get(k, 0) + v
        for s in samples:
            if len(self.samples) < 6:
                self.samples.append(s)

    def write_evidence(self):
        cov = {
            "evaluations": int(self.evaluations),
            "distinct_nontrivial": len(self.fingerprints),
            "nontrivial_total": int(self.nontrivial),
            "rule": self.rule,
            "samples": self.samples[:8] if self.samples else ["(no case was generated)"],
            "classes": self.classes,
            "known_finding_hits": self.known_hits,
            "inconclusive": self.inconclusive,
            "flaky_unconfirmed": self.flaky,
        }
        if self.exhaustive is not None:
            cov["exhaustive"] = bool(self.exhaustive)
        if self.explanation:
            cov["explanation"] = self.explanation
        cov.update(self.extra)
        ev = {
            "property_id": self.pid,
            "tier": self.tier,
            "seed": int(self.seed),
            "level": self.level,
            "coverage": cov,
            "assumptions": self.assumptions,
            "wall_s": round(time.time() - self.t0, 2),
            "violations": len(self.violations),
        }
        # runs against a scratch tree (seeded changes) set VERIF_EVIDENCE_DIR so that evidence/ only ever holds runs on /repo
        d = os.environ.get("VERIF_EVIDENCE_DIR") or os.path.join(VERIF, "evidence")
        os.makedirs(d, exist_ok=True)
        tmp = os.path.join(d, self.pid + ".json.tmp")
        with open(tmp, "w") as f:
            json.dump(ev, f, indent=1, sort_keys=True, default=str)
            f.write("\n")
        os.replace(tmp, os.path.join(d, self.pid + ".json"))

    def finish(self):
        self.write_evidence()
        for fid, n in sorted(self.known_hits.items()):
            pass
        if self.violations:
            for path, what in self.violations:
                print("VIOLATION property=%s replay=%s" % (self.pid, path))
                print("  " + what)
            return 1
        print("OK property=%s tier=%s evaluations=%d distinct_nontrivial=%d wall=%.1fs" % (
            self.pid, self.tier, self.evaluations, len(self.fingerprints), time.time() - self.t0))
        return 0


def save_replay(pid, obj):
    d = os.path.join(VERIF, "replays")
    os.makedirs(d, exist_ok=True)
    blob = json.dumps(obj, sort_keys=True, indent=1)
    h = hashlib.sha256(blob.encode()).hexdigest()[:12]
    p = os.path.join(d, "%s-%s.json" % (pid, h))
    with open(p, "w") as f:
        f.write(blob + "\n")
    return p


def run_parallel(cmds, timeout=None, env=None):
    """run a list of argv lists concurrently (at most NPROC at a time); returns
    list of (rc, stdout) in order"""
    from concurrent.futures import ThreadPoolExecutor

    def one(cmd):
        e = dict(os.environ)
        if isinstance(cmd, tuple):
            cmd, extra = cmd
            e.update(extra)
        if env:
            e.update(env)
        try:
            r = subprocess.run(cmd, stdout=subprocess.PIPE, stderr=subprocess.STDOUT, env=e, timeout=timeout)
            return r.returncode, r.stdout.decode(errors="replace")
        except subprocess.TimeoutExpired as ex:
            return -999, (ex.stdout or b"").decode(errors="replace")
    with ThreadPoolExecutor(NPROC) as ex:
        return list(ex.map(one, cmds))
