"""Comparison of data-disk snapshots (see sandbox.Array.snap_dir)."""

RESERVED = (b"content.",)


def user_entries(tree):
    """entries that belong to the array: content copies / lock / tmp files and files excluded by the
    harness's only rule (*.unrecoverable, left behind by earlier fix runs of a history) are not part of it"""
    return {k: v for k, v in tree.items() if not k.startswith(RESERVED) and not k.endswith(b".lock") and not k.endswith(b".unrecoverable")}


def inode_groups(tree):
    g = {}
    for k, v in tree.items():
        if v[0] == "f":
            g.setdefault(v[4], set()).add(k)
    return set(frozenset(s) for s in g.values() if len(s) > 1)


def compare_restored(want, have, mtime_exempt=(), ignore_extra_dirs=False):
    """want/have: {relpath: entry} of ONE disk.  Returns list of difference strings."""
    diffs = []
    want = user_entries(want)
    have = user_entries(have)
    for k, e in sorted(want.items()):
        h = have.get(k)
        if h is None:
            diffs.append("missing %r (%s)" % (k, e[0]))
            continue
        if h[0] != e[0]:
            diffs.append("%r is %s, expected %s" % (k, h[0], e[0]))
            continue
        if e[0] == "f":
            if h[1] != e[1]:
                if h[2] != e[2]:
                    diffs.append("file %r has size %d, expected %d" % (k, h[2], e[2]))
                else:
                    pos = next(i for i in range(len(e[1])) if h[1][i] != e[1][i])
                    diffs.append("file %r differs from the synced bytes at offset %d" % (k, pos))
            elif h[3] != e[3] and k not in mtime_exempt:
                diffs.append("file %r has mtime %d, synced mtime %d" % (k, h[3], e[3]))
        elif e[0] == "l":
            if h[1] != e[1]:
                diffs.append("symlink %r points to %r, expected %r" % (k, h[1], e[1]))
    for k, h in sorted(have.items()):
        if k not in want:
            if ignore_extra_dirs and h[0] == "d":
                continue
            diffs.append("unexpected %s %r" % (h[0], k))
    if inode_groups(want) != inode_groups(have):
        diffs.append("hard link groups differ: %r vs %r" % (sorted(map(sorted, inode_groups(want))), sorted(map(sorted, inode_groups(have)))))
    return diffs


def same_tree(a, b, with_mtime=True):
    """strict equality of two snapshots of one directory (bytes, type, mtime, link targets); inode numbers ignored"""
    diffs = []
    for k in sorted(set(a) | set(b)):
        x, y = a.get(k), b.get(k)
        if x is None or y is None:
            diffs.append("%r %s" % (k, "appeared" if x is None else "disappeared"))
        elif x[0] != y[0]:
            diffs.append("%r changed kind %s -> %s" % (k, x[0], y[0]))
        elif x[0] == "f":
            if x[1] != y[1]:
                diffs.append("%r content changed" % (k,))
            elif with_mtime and x[3] != y[3]:
                diffs.append("%r mtime changed %d -> %d" % (k, x[3], y[3]))
        elif x[0] == "l" and x[1] != y[1]:
            diffs.append("%r link target changed" % (k,))
    return diffs
