"""Parser of SnapRAID's -l tag log: lines `tag:field:field...` with esc_tag escaping
(\\n newline, \\r CR, \\d colon, \\\\ backslash)."""

_UN = {ord("n"): 10, ord("r"): 13, ord("d"): ord(":"), ord("\\"): ord("\\")}


def unesc(b):
    if b"\\" not in b:
        return b
    out = bytearray()
    i = 0
    while i < len(b):
        c = b[i]
        if c == 0x5c and i + 1 < len(b):
            out.append(_UN.get(b[i + 1], b[i + 1]))
            i += 2
        else:
            out.append(c)
            i += 1
    return bytes(out)


def parse_log(data):
    tags = []
    for line in data.split(b"\n"):
        if not line:
            continue
        tags.append([unesc(f) for f in line.split(b":")])
    return tags
