"""Scratch-array sandbox: builds a private SnapRAID array below a scratch root, writes the
configuration file, runs commands of the binary built from the tree under test and
takes byte-exact snapshots.  All paths below the root are handled as bytes."""
import os
import shutil
import stat
import subprocess
import tempfile

from common import scratch_base

STD_OPTS = ["--test-skip-device", "--test-skip-self", "--no-warnings"]
LEVEL_NAMES = ["parity", "2-parity", "3-parity", "4-parity", "5-parity", "6-parity"]


def default_cfg(**kw):
    cfg = {
        "ndisks": 3,          # data disks d1..dn
        "levels": 2,          # parity levels
        "zparity": False,     # third level is z-parity (power matrix)
        "bs_kib": 1,
        "hashsize": 16,
        "splits": None,       # list per level of number of split files (default 1)
        "parity_limit": None,  # --test-parity-limit value
        "content": None,      # list of placements: "par" (own dir) or disk name "d2"; default: levels+1 in own dirs
        "order": "alpha",     # alpha | inode | dir | physical
        "io_cache": None,     # --test-io-cache
        "hash": None,         # None | "murmur3" | "spooky2" (forced with --test-force-*)
        "fake_uuid": False,
        "multi_scan": True,
        "nohidden": False,
        "autosave": None,     # GiB (config) -- practically use force_autosave_at
        "autosave_at": None,  # --test-force-autosave-at N (block index)
        "rules": ["exclude *.unrecoverable"],
        "pool": False,
        "share": None,
        "removed": [],        # disk names present on the FS but not listed in the configuration
    }
    cfg.update(kw)
    return cfg


class Run(object):
    def __init__(self, argv, rc, out, err, log, trace=None, timed_out=False):
        self.argv, self.rc, self.out, self.err, self.log = argv, rc, out, err, log
        self.trace = trace
        self.timed_out = timed_out
        self._tags = None

    @property
    def tags(self):
        if self._tags is None:
            from logparse import parse_log
            self._tags = parse_log(self.log)
        return self._tags

    def tag(self, name):
        n = name.encode() if isinstance(name, str) else name
        return [t for t in self.tags if t[0] == n]

    def summary(self, key):
        k = key.encode()
        for t in self.tags:
            if t[0] == b"summary" and len(t) > 2 and t[1] == k:
                return t[2:]
        return None

    def brief(self):
        return {"argv": [a if isinstance(a, str) else a.decode("latin-1") for a in self.argv[1:]], "rc": self.rc,
                "out": self.out[-600:].decode("latin-1"), "err": self.err[-600:].decode("latin-1")}


class Array(object):
    def __init__(self, cfg, binary, shim=None, root=None):
        self.cfg = cfg
        self.binary = binary
        self.shim = shim
        self.root = root or tempfile.mkdtemp(prefix="verif-%d-" % os.getpid(), dir=scratch_base())
        self.rootb = os.fsencode(self.root)
        self.history = []  # brief record of every command for replay/diagnostics
        self.ncmd = 0
        bs = cfg["bs_kib"] * 1024
        self.bs = bs
        for d in self.all_disk_names():
            os.makedirs(self.disk_dir(d), exist_ok=True)
        for sub in ("par", "pool", "imp", "logs"):
            os.makedirs(os.path.join(self.root, sub), exist_ok=True)
        for p in self.content_paths():
            os.makedirs(os.path.dirname(p), exist_ok=True)
        self.write_conf()

    # ---- layout
    def all_disk_names(self):
        return ["d%d" % (i + 1) for i in range(self.cfg["ndisks"])]

    def disk_names(self):
        return [d for d in self.all_disk_names() if d not in self.cfg.get("removed", [])]

    def disk_dir(self, d):
        return os.path.join(self.root, d)

    def disk_dirb(self, d):
        return os.fsencode(self.disk_dir(d))

    def nsplits(self, lev):
        sp = self.cfg.get("splits")
        return sp[lev] if sp else 1

    def level_name(self, lev):
        if lev == 2 and self.cfg.get("zparity"):
            return "z-parity"
        return LEVEL_NAMES[lev]

    def parity_paths(self, lev):
        return [os.path.join(self.root, "par", "%s.%d" % (LEVEL_NAMES[lev], s)) for s in range(self.nsplits(lev))]

    def all_parity_paths(self):
        return [p for l in range(self.cfg["levels"]) for p in self.parity_paths(l)]

    def content_paths(self):
        pl = self.cfg.get("content") or ["par"] * (self.cfg["levels"] + 1)
        out = []
        for i, where in enumerate(pl):
            if where == "par":
                out.append(os.path.join(self.root, "cont%d" % i, "content"))
            else:
                out.append(os.path.join(self.root, where, "content.%d" % i))
        return out

    def conf_path(self):
        return os.path.join(self.root, "snapraid.conf")

    def conf_text(self):
        c = self.cfg
        lines = ["blocksize %d" % c["bs_kib"]]
        if c["hashsize"] != 16:
            lines.append("hashsize %d" % c["hashsize"])
        for l in range(c["levels"]):
            lines.append("%s %s" % (self.level_name(l), ",".join(self.parity_paths(l))))
        for p in self.content_paths():
            lines.append("content " + p)
        for d in self.disk_names():
            # "conf_names": a disk line under another name (and optionally another directory) than the harness's d<k>
            nm, dr = (c.get("conf_names") or {}).get(d, (d, None))
            lines.append("disk %s %s/" % (nm, dr or self.disk_dir(d)))
        if c.get("nohidden"):
            lines.append("nohidden")
        for r in c.get("rules", []):
            lines.append(r)
        if c.get("autosave"):
            lines.append("autosave %d" % c["autosave"])
        if c.get("pool"):
            lines.append("pool " + os.path.join(self.root, "pool"))
        if c.get("share"):
            lines.append("share " + c["share"])
        return "\n".join(lines) + "\n"

    def write_conf(self):
        with open(self.conf_path(), "wb") as f:
            f.write(self.conf_text().encode("latin-1"))

    # ---- running
    def base_opts(self):
        c = self.cfg
        o = list(STD_OPTS)
        o.append("--test-force-order-" + c.get("order", "alpha"))
        if c.get("hash"):
            o.append("--test-force-" + c["hash"])
        if c.get("io_cache"):
            o += ["--test-io-cache", str(c["io_cache"])]
        if c.get("parity_limit"):
            o += ["--test-parity-limit", str(c["parity_limit"])]
        if c.get("fake_uuid"):
            o.append("--test-fake-uuid")
        if not c.get("multi_scan", True):
            o.append("--test-skip-multi-scan")
        if c.get("autosave_at") is not None:
            o += ["--test-force-autosave-at", str(c["autosave_at"])]
        return o

    def run(self, command, args=(), env=None, shim_env=None, timeout=120, binary=None, log=True, extra_opts=()):
        self.ncmd += 1
        logp = os.path.join(self.root, "logs", "%04d.log" % self.ncmd)
        argv = [binary or self.binary, "-c", self.conf_path()] + self.base_opts() + list(extra_opts)
        if log:
            argv += ["-l", logp]
        argv += list(args) + [command]
        e = dict(os.environ)
        e["LC_ALL"] = "C"
        e.pop("LD_PRELOAD", None)
        tracep = None
        if shim_env is not None:
            if not self.shim:
                raise RuntimeError("shim requested but not built")
            e["LD_PRELOAD"] = self.shim
            e["VERIF_ROOT"] = self.root
            for k, v in shim_env.items():
                e["VERIF_" + k] = str(v)
            if "TRACE" in shim_env:
                tracep = shim_env["TRACE"]
        if env:
            e.update(env)
        timed_out = False
        try:
            p = subprocess.run(argv, stdout=subprocess.PIPE, stderr=subprocess.PIPE, env=e, timeout=timeout, cwd=self.root)
            rc, out, err = p.returncode, p.stdout, p.stderr
        except subprocess.TimeoutExpired as ex:
            rc, out, err, timed_out = -999, ex.stdout or b"", ex.stderr or b"", True
        logdata = b""
        if log and os.path.exists(logp):
            with open(logp, "rb") as f:
                logdata = f.read()
        trace = None
        if tracep and os.path.exists(tracep):
            with open(tracep, "rb") as f:
                trace = f.read()
        r = Run(argv, rc, out, err, logdata, trace, timed_out)
        self.history.append(r.brief())
        return r

    # ---- snapshots
    def snap_dir(self, top, with_bytes=True):
        """{relpath(bytes): entry}; entry = ('f', bytes|None, size, mtime_ns, inode, nlink) | ('l', target) | ('d',)"""
        topb = os.fsencode(top)
        out = {}
        if not os.path.lexists(topb):
            return out
        for dirpath, dirnames, filenames in os.walk(topb):
            rel = os.path.relpath(dirpath, topb)
            for n in list(dirnames):
                full = os.path.join(dirpath, n)
                r = n if rel == b"." else os.path.join(rel, n)
                if os.path.islink(full):
                    out[r] = ("l", os.readlink(full))
                else:
                    out[r] = ("d",)
            for n in filenames:
                full = os.path.join(dirpath, n)
                r = n if rel == b"." else os.path.join(rel, n)
                st = os.lstat(full)
                if stat.S_ISLNK(st.st_mode):
                    out[r] = ("l", os.readlink(full))
                elif stat.S_ISREG(st.st_mode):
                    data = None
                    if with_bytes:
                        try:
                            with open(full, "rb") as f:
                                data = f.read()
                        except OSError:
                            data = None
                    out[r] = ("f", data, st.st_size, st.st_mtime_ns, st.st_ino, st.st_nlink)
                else:
                    out[r] = ("o", st.st_mode)
        return out

    def snap_data(self):
        return {d: self.snap_dir(self.disk_dir(d)) for d in self.all_disk_names()}

    def snap_all(self):
        """whole scratch root except logs and the configuration"""
        s = self.snap_dir(self.root)
        return {k: v for k, v in s.items() if not (k == b"logs" or k.startswith(b"logs/") or k == b"snapraid.conf")}

    def read_parity(self, lev):
        out = []
        for p in self.parity_paths(lev):
            try:
                with open(p, "rb") as f:
                    out.append(f.read())
            except OSError:
                out.append(None)
        return out

    def read_content(self, i=None):
        """bytes of content copy i (first existing when i is None)"""
        ps = self.content_paths()
        for p in ([ps[i]] if i is not None else ps):
            if os.path.exists(p):
                with open(p, "rb") as f:
                    return f.read()
        return None

    def destroy(self):
        def onerr(func, path, exc):
            try:
                os.chmod(os.path.dirname(path), 0o700)
                os.chmod(path, 0o700)
                func(path)
            except OSError:
                pass
        shutil.rmtree(self.rootb, onerror=onerr)
