"""Generators.  Hypothesis draws small integer tuples (cheap to generate, good to shrink:
0 is always the simplest choice); `decode_*` turns them into JSON-serialisable step and
configuration dictionaries, which is what run_case receives and what replay files hold."""
from hypothesis import strategies as st

# component names (latin-1 strings; the file system sees the bytes)
PLAIN = ["a", "b", "c", "f1", "f2", "dir1", "dir2", "x.bin", "data"]
ODD = [" sp ace ", ".hidden", "gl*b", "qu?st", "[abc]", "br[a-c]k", "co:lon", "new\nline", "cr\rx", "back\\slash",
       "\xff\xfe\x80", "caf\xe9", "tab\there", "quote'\"", "dollar$x", "semi;colon", "-dash", "#hash", "a" * 200, "~", "%s%d", "!bang",
       "summary:x", "*", "?", "a b", "\x01ctl", "end.", "UPPER", "\\", "name\\n"]


def _names():
    comps = PLAIN + ODD
    out = list(comps)
    dirs = ["dir1", "dir2", "a", " sp ace ", "co:lon", "new\nline", "\xff\xfe\x80", "gl*b", "[abc]", ".hidden"]
    for d in dirs:
        for c in comps[:14] + comps[-6:]:
            out.append(d + "/" + c)
    for d in dirs[:5]:
        for e in dirs[:4]:
            for c in ("a", "f1", "new\nline", "co:lon", "x.bin"):
                out.append(d + "/" + e + "/" + c)
    seen, res = set(), []
    for n in out:
        if n not in seen:
            seen.add(n)
            res.append(n)
    return res


NAMES = _names()
PLAIN_NAMES = [n for n in NAMES if all(ch.isalnum() or ch in "./" for ch in n)]


def name_of(i, odd=True):
    t = NAMES if odd else PLAIN_NAMES
    return t[i % len(t)]


def size_of(i, bs):
    edge = [1, 0, bs, bs - 1, bs + 1, 2 * bs - 1, 2 * bs, 2 * bs + 1, 3 * bs, 4 * bs + 7, 6 * bs - 1, 6 * bs, 100, bs // 2, 5 * bs + bs // 3, 3 * bs - 1]
    return edge[i % len(edge)]


# weighted table of file-system ops; index 0 is the simplest
FS_OPS = (["create"] * 7 + ["delete"] * 4 + ["append"] * 2 + ["truncate"] * 2 + ["rewrite"] * 2 + ["touch"] * 3 + ["rename"] * 2 +
          ["move"] * 2 + ["copy"] * 3 + ["mkdir"] + ["rmdir"] + ["create_same"] + ["undelete"] * 3 + ["rewrite_same_sec"] + ["empty_disk"] + ["symlink"] + ["hardlink"] + ["file_to_dir"] + ["file_to_link"])
FS_OPS_NOLINK = [o for o in FS_OPS if o not in ("symlink", "hardlink", "file_to_dir", "file_to_link")]

STEP = st.tuples(st.integers(0, 255), st.integers(0, 255), st.integers(0, 255), st.integers(0, 255), st.integers(0, 1 << 20))


def decode_fs(t, bs, ndisks, odd=True, links=True):
    s = _decode_fs(t, bs, ndisks, odd, links)
    if "fi" in s and (t[4] >> 9) % 3 == 0:
        s["recent"] = True   # act on the file the previous step produced, whatever disk it is on
    return s


def _decode_fs(t, bs, ndisks, odd=True, links=True):
    o, a, b, c, seed = t
    tab = FS_OPS if links else FS_OPS_NOLINK
    op = tab[o % len(tab)]
    disk = a % ndisks
    kind = [0, 0, 0, 0, 1, 2, 3][(seed >> 8) % 7]
    if op == "create":
        return {"op": "create", "disk": disk, "name": name_of(b, odd), "size": size_of(c, bs), "cseed": seed, "kind": kind, "ns0": (seed >> 4) % 5 == 0}
    if op == "create_same":
        return {"op": "create", "disk": disk, "name": name_of(b, odd), "size": 0, "same_as": [(a // ndisks) % ndisks, c], "cseed": seed}
    if op in ("append",):
        return {"op": op, "disk": disk, "fi": b, "size": size_of(c, bs), "cseed": seed, "kind": kind}
    if op == "truncate":
        return {"op": op, "disk": disk, "fi": b, "size": size_of(c, bs)}
    if op == "rewrite":
        return {"op": op, "disk": disk, "fi": b, "cseed": seed, "kind": kind}
    if op == "rewrite_same_sec":
        return {"op": "rewrite", "disk": disk, "fi": b, "cseed": seed, "kind": kind, "same_sec": True}
    if op == "undelete":
        return {"op": "undelete", "disk": disk, "fi": b % 3 if b % 2 else 0, "keep_mtime": seed % 3 == 0}
    if op == "touch":
        # named touch_file: "touch" is also a snapraid command and the history runner gives commands precedence
        return {"op": "touch_file", "disk": disk, "fi": b, "ns0": seed % 2 == 0}
    if op == "delete":
        return {"op": op, "disk": disk, "fi": b}
    if op == "rename":
        return {"op": op, "disk": disk, "fi": b, "name": name_of(c, odd)}
    if op == "copy":
        # keep_name: the copy keeps its sub-path on another disk (cp -p to the same place of another disk): the form the tool's
        # copy detection recognises by name, size and time-stamp
        d2 = (a // ndisks) % ndisks
        keep = (seed >> 5) % 2 == 0 and ndisks > 1
        if keep and d2 == disk:
            d2 = (disk + 1) % ndisks
        return {"op": op, "disk": disk, "fi": b, "disk2": d2, "name": name_of(c, odd), "keep_name": keep}
    if op == "move":
        return {"op": op, "disk": disk, "fi": b, "disk2": (a // ndisks) % ndisks, "name": name_of(c, odd)}
    if op == "empty_disk":
        return {"op": op, "disk": disk}
    if op == "mkdir":
        return {"op": op, "disk": disk, "name": name_of(b, odd)}
    if op == "rmdir":
        return {"op": op, "disk": disk, "fi": b}
    if op == "symlink":
        return {"op": op, "disk": disk, "name": name_of(b, odd), "target": name_of(c, odd)}
    if op == "hardlink":
        # relink: when the disk holds a symbolic link, one of them is replaced by the hard link (kind and target change in one step)
        return {"op": op, "disk": disk, "fi": b, "name": name_of(c, odd), "relink": (seed >> 3) % 2 == 0, "li": seed >> 12}
    if op == "file_to_dir":
        return {"op": op, "disk": disk, "fi": b, "cseed": seed, "size": size_of(c, bs)}
    if op == "file_to_link":
        return {"op": op, "disk": disk, "fi": b}
    raise AssertionError(op)


SYNC_FORMS = [{}, {}, {}, {}, {"B": 1}, {"S": 0, "B": 1}, {"F": True}, {"R": True}, {"h": True}, {"N": True}, {"kill_after": True}, {}, {"kill_after": True}]


def decode_sync(t):
    o, a, b, c, seed = t
    f = dict(SYNC_FORMS[a % len(SYNC_FORMS)])
    if "B" in f:
        f["B"] = 1 + b % 12
    if "S" in f:
        f["S"] = c % 12
    f["op"] = "sync"
    return f


CFG = st.tuples(*([st.integers(0, 255)] * 14))


def decode_cfg(t, max_disks=5, allow_split=True, allow_z=True, levels=None, hashsizes=(16, 16, 8, 4, 2), content_on_disks=True):
    lv = [2, 1, 3, 2, 3, 4, 5, 6][t[0] % 8] if levels is None else levels
    z = bool(allow_z and lv == 3 and t[1] % 2 == 1)
    nd = min(max_disks, [2, 1, 3, 2, 3, 4, 4, 5][t[2] % 8])
    bs = [1, 1, 1, 2, 4][t[3] % 5]
    cfg = {"ndisks": nd, "levels": lv, "zparity": z, "bs_kib": bs,
           "hashsize": hashsizes[t[4] % len(hashsizes)],
           "hash": [None, "murmur3", "spooky2"][t[5] % 3],
           "order": ["alpha", "alpha", "inode", "dir", "physical"][t[6] % 5],
           "io_cache": [None, None, 1, 3, 4, 8, 128][t[7] % 7],
           "multi_scan": t[8] % 3 != 2,
           "fake_uuid": t[9] % 3 == 2}
    ncont = 1 + t[10] % 4
    places = ["par"] + (["d%d" % (i + 1) for i in range(nd)] if content_on_disks else [])
    cfg["content"] = [places[(t[11] >> (2 * i)) % len(places)] for i in range(ncont)]
    if allow_split and t[12] % 4 == 3:
        cfg["splits"] = [1 + (t[13] >> i) % 4 for i in range(lv)]
        cfg["parity_limit"] = [20, 40, 100][t[12] // 4 % 3] * bs * 1024 + t[13] * 3
    return cfg
