"""Oracle hashes (independent implementations in native/oracle.c, loaded through ctypes)."""
import ctypes
import os

_lib = None


def lib():
    global _lib
    if _lib is None:
        from common import build
        p = build("oracle")["oracle"]
        _lib = ctypes.CDLL(p)
        _lib.o_crc32c.restype = ctypes.c_uint32
        _lib.o_crc32c.argtypes = [ctypes.c_uint32, ctypes.c_char_p, ctypes.c_size_t]
        _lib.o_crc32c_fast.restype = ctypes.c_uint32
        _lib.o_crc32c_fast.argtypes = [ctypes.c_uint32, ctypes.c_char_p, ctypes.c_size_t]
        for f in (_lib.o_murmur3, _lib.o_spooky2):
            f.argtypes = [ctypes.c_char_p, ctypes.c_size_t, ctypes.c_char_p, ctypes.c_char_p]
        _lib.o_hash_blocks.argtypes = [ctypes.c_int, ctypes.c_char_p, ctypes.c_char_p, ctypes.c_size_t, ctypes.c_size_t, ctypes.c_char_p]
    return _lib


MURMUR3, SPOOKY2 = "murmur3", "spooky2"


def memhash(kind, seed, data):
    out = ctypes.create_string_buffer(16)
    (lib().o_murmur3 if kind == MURMUR3 else lib().o_spooky2)(bytes(data), len(data), bytes(seed), out)
    return out.raw


def hash_blocks(kind, seed, data, bs):
    """hash consecutive blocks of `bs` bytes (last may be short); returns list of 16-byte digests"""
    n = (len(data) + bs - 1) // bs
    if n == 0:
        return []
    out = ctypes.create_string_buffer(16 * n)
    lib().o_hash_blocks(0 if kind == MURMUR3 else 1, bytes(seed), bytes(data), len(data), bs, out)
    return [out.raw[16 * i:16 * i + 16] for i in range(n)]


def crc32c(data, crc=0, slow=False):
    return (lib().o_crc32c if slow else lib().o_crc32c_fast)(crc, bytes(data), len(data))
