"""Coverage-guided campaign (libFuzzer, ASan+UBSan) against the content-file loader of the tree under test.
Target: native/content_fuzz.c.  Used by C09 (clause: damaged content files are never loaded and never cause
memory-unsafe behaviour); the generated inputs are libFuzzer mutations of valid content files written by the tree's
own binary (random multi-byte damage, with coverage feedback and a dictionary of varint boundary encodings)."""
import base64
import glob
import hashlib
import json
import os
import re
import shutil
import subprocess
import tempfile

from common import NPROC, scratch_base, save_replay
from sandbox import default_cfg
from world import World

ASAN = "detect_leaks=0:allocator_may_return_null=1:max_allocation_size_mb=512:abort_on_error=0"


def varint(v):
    out = bytearray()
    while True:
        if v < 0x80:
            out.append(v | 0x80)
            return bytes(out)
        out.append(v & 0x7f)
        v >>= 7


def write_dict(path):
    vals = [0, 1, 127, 128, 16383, 16384, (1 << 21) - 1, 1 << 21, (1 << 28) - 1, 1 << 28, (1 << 31) - 1, 1 << 31, (1 << 32) - 2, (1 << 32) - 1, 1 << 32,
            1 << 35, 1 << 42, 1 << 49, 1 << 56, (1 << 63) - 1, 1 << 63, (1 << 64) - 1, 999999999, 1000000000, 4095, 4096, 4097, 1023, 1024]
    with open(path, "w") as f:
        for i, v in enumerate(vals):
            f.write('v%d="%s"\n' % (i, "".join("\\x%02x" % b for b in varint(v))))
        for i, t in enumerate(["SNAPCNT2\n\x03\x00\x00", "SNAPCNT3\n\x03\x00\x00", "\x7f\x7f\x7f\x7f\x7f", "\xff\xff\xff\xff", "\x00\x00\x00\x00"]):
            f.write('t%d="%s"\n' % (i, "".join("\\x%02x" % ord(c) for c in t)))
        for c in "zxycCMPQfbgpnsarhoOiN":
            f.write('r_%s="%s"\n' % (c if c.islower() else c + "u", c))


SEED_HISTORIES = [
    # (name, list of steps); a step is an fs step dict or ("cmd", name, args)
    ("plain", [{"op": "create", "disk": 0, "name": "a", "size": 3000, "cseed": 1}, {"op": "create", "disk": 1, "name": "dir1/b", "size": 1024, "cseed": 2},
               {"op": "create", "disk": 2, "name": "c", "size": 1, "cseed": 3}, ("cmd", "sync", [])]),
    ("odd", [{"op": "create", "disk": 0, "name": "new\nline", "size": 2049, "cseed": 4}, {"op": "create", "disk": 0, "name": "\xff\xfe\x80", "size": 0, "cseed": 5},
             {"op": "symlink", "disk": 1, "name": "sl", "target": "a b"}, {"op": "mkdir", "disk": 2, "name": "dir2/x.bin"},
             {"op": "create", "disk": 1, "name": "f1", "size": 5000, "cseed": 6}, {"op": "hardlink", "disk": 1, "fi": 0, "name": "hl"}, ("cmd", "sync", [])]),
    ("pending", [{"op": "create", "disk": 0, "name": "a", "size": 4096, "cseed": 7}, {"op": "create", "disk": 1, "name": "b", "size": 6000, "cseed": 8}, ("cmd", "sync", []),
                 {"op": "delete", "disk": 0, "fi": 0}, {"op": "create", "disk": 0, "name": "c", "size": 2500, "cseed": 9}, {"op": "rewrite", "disk": 1, "fi": 0, "cseed": 10},
                 {"op": "create", "disk": 2, "name": "data", "size": 7000, "cseed": 11}, ("cmd", "sync", ["-S", "5", "-B", "1"])]),
    ("scrubbed", [{"op": "create", "disk": 0, "name": "a", "size": 8192, "cseed": 12}, {"op": "create", "disk": 2, "name": "b", "size": 3333, "cseed": 13}, ("cmd", "sync", []),
                  ("cmd", "scrub", ["-p", "50", "-o", "0"]), {"op": "delete", "disk": 2, "fi": 0}, ("cmd", "sync", []), {"op": "create", "disk": 1, "name": "late", "size": 1500, "cseed": 14},
                  ("cmd", "sync", [])]),
]


def make_seeds(ctx, dst):
    """content files written by the tree's own binary with the configuration the target uses"""
    n = 0
    for name, steps in SEED_HISTORIES:
        cfg = default_cfg(ndisks=3, levels=2, bs_kib=1, hashsize=16, content=["par"])
        w = World(cfg, ctx.rel)
        try:
            for s in steps:
                if isinstance(s, tuple):
                    w.cmd(s[1], list(s[2]))
                else:
                    w.fs_step(s)
            B = w.arr.read_content()
            if B:
                with open(os.path.join(dst, name), "wb") as f:
                    f.write(B)
                n += 1
        finally:
            w.destroy()
    return n


def run_one(binary, path, timeout=120):
    env = dict(os.environ)
    env["ASAN_OPTIONS"] = ASAN
    env["UBSAN_OPTIONS"] = "print_stacktrace=1"
    env.pop("VERIF_FUZZ_STATS", None)
    try:
        r = subprocess.run([binary, "-close_fd_mask=1", "-rss_limit_mb=3000", "-timeout=100", path], stdout=subprocess.PIPE, stderr=subprocess.PIPE, env=env, timeout=timeout)
    except subprocess.TimeoutExpired:
        return None, b"timeout"
    return r.returncode, r.stderr


def summarise(err):
    txt = err.decode("latin-1")
    m = re.search(r"(ORACLE: [^\n]*)", txt) or re.search(r"(SUMMARY: [^\n]*)", txt) or re.search(r"(ERROR: [^\n]*)", txt)
    what = m.group(1) if m else "target crashed"
    frames = [l.strip() for l in txt.split("\n") if re.match(r"\s+#\d+ ", l) and ("cmdline/" in l or "raid/" in l or "tommyds/" in l)][:4]
    return what[:300] + (" | " + " <- ".join(re.sub(r"^#\d+ 0x[0-9a-f]+ in ", "", f)[:90] for f in frames) if frames else "")


def replay(ctx, case):
    """-> (ok, why).  ok None = inconclusive"""
    data = base64.b64decode(case["data_b64"])
    d = tempfile.mkdtemp(prefix="verif-cfz-", dir=scratch_base())
    try:
        p = os.path.join(d, "input")
        with open(p, "wb") as f:
            f.write(data)
        rc, err = run_one(ctx.paths["content_fuzz"], p)
        if rc is None:
            return None, "timeout"
        if rc != 0:
            if b"out-of-memory" in err or b"libFuzzer: timeout" in err:
                return None, "resource limit"
            return False, "content loader, %d-byte damaged file: %s" % (len(data), summarise(err))
        return True, ""
    finally:
        shutil.rmtree(d, ignore_errors=True)


def campaign(res, ctx, pid, seconds, seed):
    """runs the campaign, adds counters to the evidence, appends confirmed violations"""
    binary = ctx.paths["content_fuzz"]
    d = tempfile.mkdtemp(prefix="verif-cfz-", dir=scratch_base())
    try:
        seeds = os.path.join(d, "seeds")
        corpus = os.path.join(d, "corpus")
        arts = os.path.join(d, "art")
        for x in (seeds, corpus, arts):
            os.makedirs(x)
        nseeds = make_seeds(ctx, seeds)
        if nseeds == 0:
            raise RuntimeError("no seed content file could be produced")
        write_dict(os.path.join(d, "dict"))
        env = dict(os.environ)
        env["ASAN_OPTIONS"] = ASAN
        env["VERIF_FUZZ_STATS"] = os.path.join(d, "stats")
        env["VERIF_FUZZ_TMP"] = d
        env["TMPDIR"] = d
        cmd = [binary, "-fork=%d" % NPROC, "-ignore_ooms=1", "-ignore_timeouts=1", "-ignore_crashes=1", "-timeout=10", "-close_fd_mask=3", "-max_len=4096",
               "-max_total_time=%d" % seconds, "-seed=%d" % (seed + 1), "-rss_limit_mb=2000", "-dict=" + os.path.join(d, "dict"),
               "-artifact_prefix=" + arts + "/", corpus, seeds]
        r = subprocess.run(cmd, stdout=subprocess.PIPE, stderr=subprocess.STDOUT, env=env, cwd=d, timeout=seconds + 600)
        out = r.stdout.decode("latin-1")
        tot = {"exec": 0, "loaded": 0, "exit": 0, "abort": 0, "assert": 0}
        if os.path.exists(env["VERIF_FUZZ_STATS"]):
            for line in open(env["VERIF_FUZZ_STATS"]):
                for k, v in re.findall(r"(\w+)=(\d+)", line):
                    if k in tot:
                        tot[k] += int(v)
        m = re.findall(r"cov: (\d+) ft: (\d+) corp: (\d+)", out)
        cov = tuple(int(x) for x in m[-1]) if m else (0, 0, 0)
        if tot["exec"] == 0:
            raise RuntimeError("fuzz campaign executed nothing:\n" + out[-1500:])
        rejected = tot["exit"] + tot["abort"] + tot["assert"]
        res.evaluations += tot["exec"]
        res.nontrivial += rejected
        res.classes["fuzz: executions"] = tot["exec"]
        res.classes["fuzz: rejected through an error exit of the loader"] = tot["exit"]
        res.classes["fuzz: rejected through the loader's abort"] = tot["abort"] + tot["assert"]
        res.classes["fuzz: loaded (valid CRC trailer: an unmodified seed)"] = tot["loaded"]
        # distinct inputs: the corpus libFuzzer kept (inputs with new coverage); all executions are not stored
        kept = glob.glob(os.path.join(corpus, "*"))
        res.fingerprints.update("fuzz:" + os.path.basename(k) for k in kept)
        res.extra["fuzz"] = {"seconds": seconds, "jobs": NPROC, "seed_files": nseeds, "executions": tot["exec"], "edges_covered": cov[0], "features": cov[1],
                             "corpus_kept": len(kept), "outcomes": tot}
        if kept:
            k0 = sorted(kept, key=os.path.getsize)[len(kept) // 2]
            res.samples.append({"fuzz_input_hex_head": open(k0, "rb").read(48).hex(), "bytes": os.path.getsize(k0)})
        # artifacts: only crash-* (sanitizer report, signal, oracle trap) count; oom/timeout/slow-unit are load noise
        seen = set()
        for a in sorted(glob.glob(os.path.join(arts, "crash-*")) + glob.glob(os.path.join(arts, "leak-*"))):
            data = open(a, "rb").read()
            case = {"kind": "fuzz", "data_b64": base64.b64encode(data).decode()}
            bad = 0
            why = ""
            for _ in range(3):
                ok, y = replay(ctx, case)
                if ok is False:
                    bad += 1
                    why = y
            if bad == 3:
                key = why.split("|")[-1].split("<-")[0].strip()  # innermost frame of the tree = root cause
                if key in seen:
                    continue
                seen.add(key)
                path = save_replay(pid, {"property": pid, "module": "c09", "case": case, "why": why})
                res.violations.append((path, why))
            else:
                res.flaky.append({"artifact": os.path.basename(a), "reproduced": bad, "note": "did not reproduce from the saved input alone"})
    finally:
        shutil.rmtree(d, ignore_errors=True)
