"""Monitor of the io.c hook trace (guard SNAPRAID_VERIF): checks the ownership protocol of the ring.

events: list of (kind, actor, slot, pos) in global order.
 1 READ_BEGIN 2 READ_END (actor = reader) 3 WRITE_BEGIN 4 WRITE_END (actor = writer)
 5 CALLER_NEXT (caller moves to slot) 6 CALLER_TASK (caller receives reader `actor`'s buffer of slot)
 7 CALLER_WRITE 8 CALLER_WRITE_SKIP (caller hands the slot to the writers)
"""

RB, RE, WB, WE, CN, CT, CW, CWS = 1, 2, 3, 4, 5, 6, 7, 8


def load(path):
    ev = []
    complete = False
    with open(path) as f:
        for line in f:
            p = line.split()
            if p and p[0] == "end":
                complete = True
                continue
            if len(p) == 4:
                ev.append(tuple(int(x) for x in p))
    return ev, complete


def check(ev):
    """returns (why or None, stats)"""
    cur_slot = None            # slot the caller is in
    owned = {}                 # (reader, slot) -> pos, buffers the caller currently holds
    reading = {}               # (reader, slot) -> pos while inside RB..RE
    last_read_done = {}        # (reader, slot) -> pos of the last completed read
    writing = {}               # (writer, slot) -> pos while inside WB..WE
    handed = {}                # slot -> pos handed to the writers (CW) and not yet taken back
    computing = None           # slot in which the caller is computing (between CN and CW)
    last_pos = None
    stats = {"events": len(ev), "stripes": 0, "reads": 0, "writes": 0, "max_concurrent_reads": 0}
    for n, (k, a, s, p) in enumerate(ev):
        if k == RB:
            if (a, s) in owned:
                return "event %d: reader %d starts reading into slot %d (stripe %d) while the caller still holds that buffer (stripe %d)" % (n, a, s, p, owned[(a, s)]), stats
            reading[(a, s)] = p
            stats["max_concurrent_reads"] = max(stats["max_concurrent_reads"], len(reading))
        elif k == RE:
            if reading.get((a, s)) != p:
                return "event %d: reader %d ends a read of slot %d stripe %d that it did not begin" % (n, a, s, p), stats
            del reading[(a, s)]
            last_read_done[(a, s)] = p
            stats["reads"] += 1
        elif k == CN:
            if last_pos is not None and p <= last_pos and p != 0xFFFFFFFF:
                pass  # the end marker position (>= blockmax) is delivered at the end
            # the caller leaves the previous slot: its buffers go back to the readers
            for key in [key for key in owned if key[1] == cur_slot]:
                del owned[key]
            cur_slot = s
            computing = s
            for (w_, s_), wp in writing.items():
                if s_ == s:
                    return "event %d: the caller enters slot %d (stripe %d) while writer %d is still writing stripe %d from it" % (n, s, p, w_, wp), stats
            last_pos = p
            stats["stripes"] += 1
        elif k == CT:
            if s != cur_slot:
                return "event %d: the caller receives a buffer of slot %d while it is in slot %s" % (n, s, cur_slot), stats
            if (a, s) in reading:
                return "event %d: buffer of reader %d slot %d handed to the caller while the read of stripe %d is in progress" % (n, a, s, reading[(a, s)]), stats
            owned[(a, s)] = p
        elif k in (CW, CWS):
            if s != cur_slot:
                return "event %d: the caller hands slot %d to the writers while it is in slot %s" % (n, s, cur_slot), stats
            computing = None
            if k == CW:
                handed[s] = p
        elif k == WB:
            if handed.get(s) != p:
                return "event %d: writer %d starts writing stripe %d from slot %d, but the caller handed over stripe %s" % (n, a, p, s, handed.get(s)), stats
            if computing == s:
                return "event %d: writer %d writes from slot %d while the caller is computing in it" % (n, a, s), stats
            writing[(a, s)] = p
        elif k == WE:
            if writing.get((a, s)) != p:
                return "event %d: writer %d ends a write of slot %d stripe %d that it did not begin" % (n, a, s, p), stats
            del writing[(a, s)]
            stats["writes"] += 1
    if reading or writing:
        return "trace ends with tasks in progress: reads %r writes %r" % (sorted(reading)[:2], sorted(writing)[:2]), stats
    return None, stats
