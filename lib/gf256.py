"""Independent GF(2^8) (polynomial 0x11d) and the generator matrices documented in raid/raid.c.
Nothing is read from the repository's tables."""
import numpy as np


def _slowmul(a, b):
    r = 0
    for i in range(8):
        if b & (1 << i):
            r ^= a << i
    for i in range(15, 7, -1):
        if r & (1 << i):
            r ^= 0x11d << (i - 8)
    return r


MUL = np.zeros((256, 256), dtype=np.uint8)
for _a in range(256):
    for _b in range(_a, 256):
        MUL[_a, _b] = MUL[_b, _a] = _slowmul(_a, _b)
INV = [0] * 256
for _a in range(1, 256):
    INV[_a] = int(np.nonzero(MUL[_a] == 1)[0][0])
POW2 = [1]
for _i in range(1, 512):
    POW2.append(int(MUL[POW2[-1], 2]))

NDMAX = 251


def cauchy():
    A = np.zeros((6, NDMAX), dtype=np.uint8)
    for i in range(NDMAX):
        A[0, i] = 1
        A[1, i] = POW2[i]
        xi = INV[POW2[i]]
        for j in range(2, 6):
            yj = POW2[j - 1]
            e = INV[xi ^ yj]
            first = INV[1 ^ yj]
            A[j, i] = MUL[e, INV[first]]
    return A


def vandermonde():
    A = np.zeros((3, NDMAX), dtype=np.uint8)
    for i in range(NDMAX):
        A[0, i] = 1
        A[1, i] = POW2[i]
        A[2, i] = INV[POW2[i]]
    return A


CAUCHY = cauchy()
VANDERMONDE = vandermonde()

_DOC = [
    "01 01 01 01 01 01 01 01 01 01 01 01 01 01 01 01 01 01 01 01 01 01",
    "01 02 04 08 10 20 40 80 1d 3a 74 e8 cd 87 13 26 4c 98 2d 5a b4 75",
    "01 f5 d2 c4 9a 71 f1 7f fc 87 c1 c6 19 2f 40 55 3d ba 53 04 9c 61",
    "01 bb a6 d7 c7 07 ce 82 4a 2f a5 9b b6 60 f1 ad e7 f4 06 d2 df 2e",
    "01 97 7f 9c 7c 18 bd a2 58 1a da 74 70 a3 e5 47 29 07 f5 80 23 e9",
    "01 2b 3f cf 73 2c d6 ed cb 74 15 78 8a c1 17 c9 89 68 21 ab 76 3b",
]
for _j, _row in enumerate(_DOC):
    assert [int(x, 16) for x in _row.split()] == [int(x) for x in CAUCHY[_j, :22]], "matrix model disagrees with documented excerpt"


def parity(level_rows, columns, blocks, mode="cauchy"):
    """blocks: list of np.uint8 arrays of equal length (one per column index in `columns`);
    returns {row: np array} for each generator row in level_rows"""
    A = CAUCHY if mode == "cauchy" else VANDERMONDE
    out = {}
    n = len(blocks[0]) if blocks else 0
    for j in level_rows:
        acc = np.zeros(n, dtype=np.uint8)
        for col, blk in zip(columns, blocks):
            acc ^= MUL[A[j, col]][blk]
        out[j] = acc
    return out
