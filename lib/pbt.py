"""Parallel Hypothesis runner.

A property module provides:
  PID, LEVEL, RULE, ASSUMPTIONS
  variants()                      -> build variants needed (e.g. ["rel", "shim"])
  budget(tier)                    -> number of cases per worker
  strategy(tier)                  -> Hypothesis strategy of JSON-serialisable cases
  run_case(case, ctx)             -> Outcome
  (optional) fixed_cases(tier)    -> list of explicit cases always executed first (regression tier)

Workers are separate processes (tools/worker.py); each runs Hypothesis with its own derived
seed and streams one JSON line per executed case.  A failing case is shrunk by Hypothesis in
the worker, written as a replay file, and confirmed by the driver (3 re-executions without
Hypothesis) before VIOLATION is printed."""
import json
import os
import subprocess
import sys
import tempfile
import time
import traceback

from common import VERIF, NPROC, Result, KnownFindings, build, mix_seed, save_replay, scratch_base


class Outcome(object):
    def __init__(self, ok=True, why="", fp=None, nontrivial=False, classes=(), sample=None, known=(), inconclusive=False, detail=None,
                 n_eval=1, fps=None):
        self.n_eval, self.fps = n_eval, fps
        self.ok, self.why, self.fp, self.nontrivial = ok, why, fp, nontrivial
        self.classes, self.sample, self.known, self.inconclusive = list(classes), sample, list(known), inconclusive
        self.detail = detail

    def todict(self):
        return {"ok": self.ok, "why": self.why, "fp": self.fp, "nt": self.nontrivial, "cl": self.classes,
                "sample": self.sample, "known": self.known, "inc": self.inconclusive, "n": self.n_eval, "fps": self.fps}


class Ctx(object):
    def __init__(self, tier, paths, seed=0):
        self.tier = tier
        self.paths = paths
        self.seed = seed
        self.known = KnownFindings()

    @property
    def rel(self):
        return self.paths.get("rel")

    @property
    def san(self):
        return self.paths.get("san")

    @property
    def shim(self):
        return self.paths.get("shim")


def load_module(name):
    sys.path.insert(0, os.path.join(VERIF, "props"))
    import importlib
    return importlib.import_module(name)


# ----------------------------------------------------------------------------- worker side
def worker_main(modname, tier, seed, widx, ncases, outpath, paths):
    import hypothesis
    from hypothesis import given, settings, HealthCheck, Phase
    try:
        import hypothesis.internal.conjecture.engine as eng
        eng.MAX_SHRINKING_SECONDS = 90 if tier == "quick" else 600
    except Exception:
        pass
    mod = load_module(modname)
    ctx = Ctx(tier, paths, seed)
    out = open(outpath, "a", buffering=1)
    state = {"last_fail": None, "n": 0}

    def execute(case):
        try:
            oc = mod.run_case(case, ctx)
        except Exception:
            out.write(json.dumps({"infra": traceback.format_exc(), "case": case}) + "\n")
            out.flush()
            os._exit(3)
        state["n"] += 1
        rec = oc.todict()
        if not oc.ok:
            state["last_fail"] = (case, oc.why, oc.detail)
            rec["sample"] = None
        out.write(json.dumps(rec) + "\n")
        return oc

    fixed = []
    if widx == 0:
        fixed = list(getattr(mod, "fixed_cases", lambda t: [])(tier))
        rd = os.path.join(VERIF, "regress", mod.PID)
        if os.path.isdir(rd):
            for fn in sorted(os.listdir(rd)):
                if fn.endswith(".json"):
                    fixed.append(json.load(open(os.path.join(rd, fn)))["case"])
    for case in fixed:
        oc = execute(case)
        if not oc.ok:
            out.write(json.dumps({"failure": {"case": case, "why": oc.why, "detail": oc.detail, "shrunk": False}}) + "\n")
            out.close()
            return 1

    @hypothesis.seed(mix_seed(seed, mod.PID, tier, widx))
    @settings(max_examples=ncases, database=None, deadline=None, derandomize=False, report_multiple_bugs=False,
              suppress_health_check=list(HealthCheck), phases=[Phase.generate, Phase.shrink], print_blob=False)
    @given(mod.strategy(tier))
    def prop(case):
        oc = execute(case)
        assert oc.ok, oc.why

    try:
        prop()
    except AssertionError:
        case, why, detail = state["last_fail"]
        out.write(json.dumps({"failure": {"case": case, "why": why, "detail": detail, "shrunk": True}}) + "\n")
        out.close()
        return 1
    except BaseException:
        if state["last_fail"]:
            case, why, detail = state["last_fail"]
            out.write(json.dumps({"failure": {"case": case, "why": why, "detail": detail, "shrunk": True}}) + "\n")
            out.close()
            return 1
        out.write(json.dumps({"infra": traceback.format_exc()}) + "\n")
        out.close()
        return 3
    out.write(json.dumps({"done": True}) + "\n")
    out.close()
    return 0


# ----------------------------------------------------------------------------- driver side
def replay_case(mod, case, ctx):
    try:
        return mod.run_case(case, ctx)
    except Exception:
        return Outcome(ok=True, inconclusive=True, why="harness exception during replay: " + traceback.format_exc()[-500:])


def main(modname, tier, seed, replay=None, extra_result_hook=None):
    mod = load_module(modname)
    paths = build(*mod.variants())
    ctx = Ctx(tier, paths, seed)
    if replay:
        obj = json.load(open(replay))
        case = obj["case"]
        if isinstance(case, dict) and obj.get("detail"):
            # where inside the case the failure was seen (e.g. kill point k and mode): lets a module re-run exactly that point
            case = dict(case, _detail=obj["detail"])
        oc = replay_case(mod, case, ctx)
        if oc.inconclusive:
            print("replay inconclusive: " + oc.why)
            return 2
        if not oc.ok:
            print("VIOLATION property=%s replay=%s" % (mod.PID, replay))
            print("  " + oc.why)
            return 1
        listed = {f["id"]: f for f in ctx.known.for_property(mod.PID)}
        for k in oc.known:
            print("KNOWN-FINDING: property=%s %s: %s" % (mod.PID, k, listed.get(k, {}).get("what", "")[:160]))
        print("replay passes: property holds on this case")
        return 0
    res = Result(mod.PID, tier, seed, mod.LEVEL)
    res.rule = mod.RULE
    res.assumptions = list(mod.ASSUMPTIONS)
    ncases = mod.budget(tier)
    tmpd = tempfile.mkdtemp(prefix="verif-run-", dir=scratch_base())
    procs = []
    pyexe = sys.executable
    for w in range(NPROC):
        outp = os.path.join(tmpd, "w%d.jsonl" % w)
        cmd = [pyexe, os.path.join(VERIF, "tools", "worker.py"), modname, tier, str(seed), str(w), str(ncases), outp, json.dumps(paths)]
        procs.append((w, outp, subprocess.Popen(cmd, stdout=subprocess.PIPE, stderr=subprocess.STDOUT)))
    infra = []
    failures = []
    known_msgs = {}
    for w, outp, p in procs:
        so, _ = p.communicate()
        if os.path.exists(outp):
            for line in open(outp):
                try:
                    rec = json.loads(line)
                except ValueError:
                    continue
                if "infra" in rec:
                    infra.append(rec["infra"])
                elif "failure" in rec:
                    failures.append(rec["failure"])
                elif "done" in rec:
                    pass
                else:
                    if rec.get("inc"):
                        res.inconclusive += 1
                    res.add_case(fingerprint=rec.get("fp"), nontrivial=bool(rec.get("nt")) and rec.get("ok", True),
                                 classes=rec.get("cl", ()), sample=rec.get("sample") if rec.get("nt") else None)
                    if rec.get("n", 1) > 1:
                        res.evaluations += rec["n"] - 1
                    if rec.get("fps"):
                        res.fingerprints.discard(rec.get("fp"))
                        res.fingerprints.update(rec["fps"])
                        res.nontrivial += len(rec["fps"]) - 1
                    for k in rec.get("known", ()):
                        res.known_hits[k] = res.known_hits.get(k, 0) + 1
        if p.returncode not in (0, 1):
            infra.append("worker %d exited with %s\n%s" % (w, p.returncode, so.decode(errors="replace")[-3000:]))
    try:
        import shutil
        shutil.rmtree(tmpd)
    except OSError:
        pass
    if infra:
        print("INFRA: %d worker(s) failed; first report:\n%s" % (len(infra), infra[0]))
        res.extra["infra_errors"] = len(infra)
        res.write_evidence()
        return 2
    # confirm failures: replay 3 times without hypothesis
    seen = set()
    for f in failures:
        key = json.dumps(f["case"], sort_keys=True)
        if key in seen:
            continue
        seen.add(key)
        path = save_replay(mod.PID, {"property": mod.PID, "module": modname, "case": f["case"], "why": f["why"], "detail": f.get("detail")})
        bad = 0
        # default: a failure must reproduce 3 times out of 3.  A module whose failures depend on the thread schedule (C13) sets
        # CONFIRM = (tries, needed): the case is re-run up to `tries` times and counts when it fails again `needed` times
        tries, needed = getattr(mod, "CONFIRM", (3, 3))
        for _ in range(tries):
            oc = replay_case(mod, f["case"], ctx)
            if not oc.ok:
                bad += 1
                if bad >= needed:
                    break
            elif oc.inconclusive and "harness exception" in (oc.why or ""):
                print("INFRA: replay of a reported failure crashed in the harness:\n" + oc.why)
                res.extra["infra_errors"] = 1
                res.write_evidence()
                return 2
        if bad >= needed:
            res.violations.append((path, f["why"]))
        else:
            res.flaky.append({"replay": path, "reproduced": bad, "why": f["why"]})
        if len(res.violations) >= 3:
            break
    if extra_result_hook:
        extra_result_hook(res, ctx)
    if hasattr(mod, "extra"):
        # a campaign of the module that is not driven by Hypothesis (e.g. a coverage-guided fuzzer)
        try:
            mod.extra(res, ctx)
        except Exception:
            print("INFRA: extra campaign failed:\n" + traceback.format_exc()[-2000:])
            res.extra["infra_errors"] = 1
            res.write_evidence()
            return 2
    listed = {f["id"]: f for f in ctx.known.for_property(mod.PID)}
    for k, n in sorted(res.known_hits.items()):
        what = listed.get(k, {}).get("what", "")
        print("KNOWN-FINDING: property=%s %s: %s (hit %d times in this run)" % (mod.PID, k, what[:160], n))
        if k not in listed:
            # a signature the file does not list must never be silenced
            res.violations.append(("known_findings.json", "signature %s reported by the check is not listed" % k))
    return res.finish()
