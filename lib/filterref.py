"""Reference evaluation of SnapRAID's include/exclude PATTERN rules, written from the manual
(sections 7.7 'exclude/include' and 8 'PATTERN'), not from the code.

  rules: list of (direction, pattern) with direction +1 include / -1 exclude.
  classify(pattern) -> dict(kind) or None when the manual's four forms do not cover it (must be rejected)
  file_included(rules, sub)      the file (or link) at path `sub` from the disk root
  dir_entered(rules, sub)        whether a directory is descended into (an excluded directory takes everything below)
"""
import re


def glob_to_re(pat, pathname):
    """translate a glob (bytes) to a compiled regex; `pathname`: wildcards never match '/'"""
    i, n = 0, len(pat)
    out = [b"^"]
    anyc = b"[^/]" if pathname else b"(?s:.)"
    while i < n:
        c = pat[i:i + 1]
        if c == b"\\" and i + 1 < n:
            out.append(re.escape(pat[i + 1:i + 2]))
            i += 2
        elif c == b"*":
            out.append(anyc + b"*")
            i += 1
        elif c == b"?":
            out.append(anyc)
            i += 1
        elif c == b"[":
            j = i + 1
            neg = False
            if j < n and pat[j:j + 1] in (b"!", b"^"):
                neg = True
                j += 1
            k = j
            if k < n and pat[k:k + 1] == b"]":
                k += 1
            while k < n and pat[k:k + 1] != b"]":
                k += 1
            if k >= n:
                out.append(re.escape(c))   # no closing bracket: literal
                i += 1
            else:
                body = pat[j:k]
                cls = b""
                m = 0
                while m < len(body):
                    ch = body[m:m + 1]
                    if ch == b"\\" and m + 1 < len(body):
                        cls += re.escape(body[m + 1:m + 2])
                        m += 2
                    elif m + 2 < len(body) and body[m + 1:m + 2] == b"-":
                        cls += re.escape(ch) + b"-" + re.escape(body[m + 2:m + 3])
                        m += 3
                    else:
                        cls += re.escape(ch)
                        m += 1
                if pathname:
                    out.append(b"(?!/)")
                out.append(b"[" + (b"^" if neg else b"") + cls + b"]")
                i = k + 1
        else:
            out.append(re.escape(c))
            i += 1
    out.append(b"$")
    return re.compile(b"".join(out))


def classify(pattern):
    """the four documented forms: FILE, DIR/, /PATH/FILE, /PATH/DIR/ ; anything else is invalid"""
    p = pattern
    if not p:
        return None
    is_dir = p.endswith(b"/")
    body = p[:-1] if is_dir else p
    rooted = body.startswith(b"/")
    if rooted:
        body = body[1:]
    if not body:
        return None
    comps = body.split(b"/")
    for c in comps:
        if c == b"" or set(c) == {ord(".")}:
            return None   # empty, ".", "..", "..." components
    if len(comps) > 1 and not rooted:
        return None       # PATH/FILE without the leading slash is not a documented form
    return {"dir": is_dir, "rooted": rooted, "glob": body}


_cache = {}


def _match_rule(rule, sub, final_is_dir):
    """does the rule match the element at `sub` (a file unless final_is_dir) or one of its ancestor directories?"""
    direction, pat = rule
    k = _cache.get(pat)
    if k is None:
        k = classify(pat)
        if k is not None:
            k = dict(k, re=glob_to_re(k["glob"], k["rooted"]))
        _cache[pat] = k
    if k is None:
        raise ValueError("invalid pattern %r" % pat)
    comps = sub.split(b"/")
    n = len(comps)
    for i in range(n):
        last = i == n - 1
        elem_is_dir = (not last) or final_is_dir
        if k["dir"] != elem_is_dir:
            continue
        target = b"/".join(comps[:i + 1]) if k["rooted"] else comps[i]
        if k["re"].match(target):
            return True
    return False


def first_match(rules, sub, final_is_dir):
    for r in rules:
        if _match_rule(r, sub, final_is_dir):
            return r[0]
    return 0


def file_verdict(rules, sub):
    """+1 / -1 by the rule list alone for a file path (first match, else opposite of the last rule)"""
    m = first_match(rules, sub, False)
    if m:
        return m
    if not rules:
        return 1
    return -rules[-1][0]


def dir_entered(rules, sub):
    """a directory is left out with everything below it when the first rule matching it (or an ancestor) excludes"""
    return first_match(rules, sub, True) >= 0


def file_included(rules, sub):
    """(verdict, ambiguous): verdict for a file/link at `sub`; `ambiguous` when 'first match decides' read on the file
    alone and 'an excluded directory takes everything below' disagree (the manual does not say which wins)"""
    comps = sub.split(b"/")
    pruned = False
    for i in range(1, len(comps)):
        if not dir_entered(rules, b"/".join(comps[:i])):
            pruned = True
    v = file_verdict(rules, sub)
    if pruned:
        return False, v > 0
    return v > 0, False
