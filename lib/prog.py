"""Shared pieces of generated programs: decoding of command steps and their execution."""
import os

import gen

CMDS = ([{"op": "scrub", "plan": p} for p in ("full", "new", "bad", "50", "100", "0")] + [{"op": "scrub"}] +
        [{"op": "fix", "mode": m} for m in ("all", "parity", "missing", "errors", "filter")] +
        [{"op": "check"}, {"op": "check", "a": True}, {"op": "rehash"}, {"op": "touch"}, {"op": "status"}, {"op": "diff"}, {"op": "rewrite_content"}] +
        # configuration changes: a data disk is taken out of the configuration (its stripe column becomes a hole once the next
        # sync has dropped its blocks) and possibly configured again later
        [{"op": "drop_disk"}, {"op": "readd_disk"}])

COMMAND_OPS = ("sync", "scrub", "fix", "check", "rehash", "touch", "status", "diff", "rewrite_content", "list", "dup", "pool")


def decode_step(sel, t, bs, nd, odd=True, links=True):
    """sel 0..4 file-system step, 5..6 sync, 7 other command, 8 loss of files"""
    if sel <= 4:
        return gen.decode_fs(t, bs, nd, odd=odd, links=links)
    if sel <= 6:
        return gen.decode_sync(t)
    if sel == 7:
        c = dict(CMDS[t[1] % len(CMDS)])
        if c["op"] == "drop_disk":
            c["disk"] = t[2] % nd
        return c
    return {"op": "lose_files", "disk": t[1] % nd, "n": 1 + t[2] % 3, "fi": t[3]}


def run_command(w, s, **kw):
    """execute one command step in world w; returns Run"""
    op = s["op"]
    if op == "sync":
        a = []
        if "S" in s:
            a += ["-S", str(s["S"])]
        if "B" in s:
            a += ["-B", str(s["B"])]
        for f in ("F", "R", "h", "N"):
            if s.get(f):
                a.append("-" + f)
        a += ["-E"] if s.get("E", True) else []
        a += ["-Z"] if s.get("Z", True) else []
        if s.get("kill_after"):
            a.append("--test-kill-after-sync")
        return w.cmd("sync", a, **kw)
    if op == "scrub":
        a = ["-p", s["plan"]] if "plan" in s else []
        return w.cmd("scrub", a, **kw)
    if op == "fix":
        m = s.get("mode", "all")
        a = {"all": [], "parity": ["-d", "parity"], "missing": ["-m"], "errors": ["-e"], "filter": ["-f", "a"]}[m]
        return w.cmd("fix", a, **kw)
    if op == "check":
        return w.cmd("check", ["-a"] if s.get("a") else [], **kw)
    if op == "rehash":
        cur = w.arr.cfg.get("hash")
        try:
            c = w.content_model()
        except Exception:
            c = None
        kind = c.hash[0] if c else (cur or "spooky2")
        w.arr.cfg["hash"] = "murmur3" if kind == "spooky2" else "spooky2"
        return w.cmd("rehash", **kw)
    if op == "rewrite_content":
        return w.cmd("test-rewrite", **kw)
    return w.cmd(op, **kw)


def register_touch(w, before):
    """`touch` gives files with zero sub-second time-stamps a new one: record the new identities"""
    after = w.arr.snap_data()
    for dn, tree in after.items():
        for rel, e in tree.items():
            b = before[dn].get(rel)
            if e[0] == "f" and b and b[0] == "f" and b[3] != e[3] and b[1] == e[1]:
                w.store.put(dn, rel, e[1], e[3])


def rebless_after_fix(w):
    """A fix inside a history may leave, under a recorded (size, mtime) identity, bytes that are not the
    version the harness wrote (known finding C05-hybrid: a partially synced file that changed is 'recovered'
    block-wise).  The identity now denotes the bytes on disk: later syncs hash these.  Re-register them so
    that the history can go on; the judged fix of C01/C05 is never followed by this."""
    n = 0
    for dn, tree in w.arr.snap_data().items():
        for rel, e in tree.items():
            if e[0] != "f" or e[1] is None:
                continue
            key = (dn, rel, e[2], e[3])
            old = w.store.v.get(key)
            if old is None or old != e[1]:
                if old is not None:
                    n += 1
                w.store.v[key] = e[1]
    return n


def lose_files(w, s):
    d = w.ndisk(s["disk"])
    lost = []
    for k in range(s["n"]):
        rel = w.pick(d, s["fi"] + k)
        if rel is not None:
            w.trash.append((d, rel, w.read_file(d, rel), w.mtime_ns(d, rel)))
            os.unlink(w.full(d, rel))
            lost.append(rel)
    return lost


def run_history(w, steps, after_command=None):
    """run a list of steps; after_command(i, step, run) may return a failure string.
    returns (failure or None, stats dict)"""
    stats = {"syncs_ok": 0, "commands": 0, "change_between_syncs": False, "classes": set(), "timeout": False}
    pending = False
    for i, s in enumerate(steps):
        op = s["op"]
        if op in COMMAND_OPS:
            before = w.arr.snap_data() if op == "touch" else None
            r = run_command(w, s)
            stats["commands"] += 1
            if r.timed_out:
                stats["timeout"] = True
                return None, stats
            if r.rc < 0:
                return "step %d: %s died with signal %d: %s" % (i, op, -r.rc, r.err[-300:].decode("latin-1")), stats
            if op == "touch":
                register_touch(w, before)
            if op == "fix":
                n = rebless_after_fix(w)
                if n:
                    stats["classes"].add("fix left a hybrid file under a recorded identity (finding C05-hybrid)")
            if op == "sync":
                if r.rc == 0 and not s.get("kill_after") and "B" not in s:
                    stats["syncs_ok"] += 1
                    if pending:
                        stats["change_between_syncs"] = True
                    pending = False
                for k in ("B", "S", "F", "R", "h", "N", "kill_after"):
                    if k in s:
                        stats["classes"].add("sync -" + k if len(k) == 1 else "sync " + k)
            else:
                stats["classes"].add(op)
            if after_command:
                f = after_command(i, s, r)
                if f:
                    return f, stats
        elif op == "drop_disk":
            # the documented way to take a data disk out of an array: empty it, sync with --force-empty, then delete its line
            # from the configuration (deleting the line while the content file still knows the disk is refused by the tool)
            cfg = w.arr.cfg
            k = s.get("disk", 0) % cfg["ndisks"]
            dn = "d%d" % (k + 1)
            if not cfg.get("removed") and cfg["ndisks"] >= 2 and dn not in (cfg.get("content") or []) and not cfg.get("fake_uuid"):
                for rel in list(w.list_files(dn)):
                    w.fs_step({"op": "delete", "disk": k, "fi": 0})
                top = w.arr.disk_dirb(dn)
                for n in os.listdir(top):
                    full = os.path.join(top, n)
                    if os.path.islink(full) or not os.path.isdir(full):
                        os.unlink(full)
                    else:
                        import shutil
                        shutil.rmtree(full)
                r = w.cmd("sync", ["-E", "-Z"])
                stats["commands"] += 1
                if r.timed_out:
                    stats["timeout"] = True
                    return None, stats
                try:
                    c = w.content_model()
                except Exception:
                    c = None
                d = c.disks.get(dn.encode()) if c else None
                if r.rc == 0 and c is not None and (d is None or (not d.files and not d.links and not d.dirs and not d.deleted)):
                    cfg["removed"] = [dn]
                    w.arr.write_conf()
                    w.events.append(("drop_disk", dn))
                    stats["classes"].add("disk emptied, synced and dropped from the configuration")
                if after_command:
                    f = after_command(i, {"op": "sync"}, r)
                    if f:
                        return f, stats
        elif op == "readd_disk":
            cfg = w.arr.cfg
            if cfg.get("removed"):
                w.events.append(("readd_disk", cfg["removed"][0]))
                cfg["removed"] = []
                w.arr.write_conf()
                stats["classes"].add("dropped disk configured again")
                pending = True
        elif op == "lose_files":
            lose_files(w, s)
            stats["classes"].add("files lost")
            pending = True
        else:
            ev = w.fs_step(s)
            if ev and ev[0] in ("delete", "move", "truncate", "rename", "file_to_dir", "file_to_link", "undelete", "rewrite_same_second", "empty_disk", "touch"):
                pending = True
    return None, stats


def cfg_classes(c):
    out = ["levels=%d" % c["levels"]]
    if c.get("splits"):
        out.append("split parity")
    if c["hashsize"] != 16:
        out.append("reduced hash")
    if c.get("zparity"):
        out.append("z-parity")
    if c.get("fake_uuid"):
        out.append("fake uuid")
    return out


def ev_json(events, n=40):
    return [[x.decode("latin-1") if isinstance(x, bytes) else x for x in e] for e in events[:n]]
