"""Damage generators: device-level (whole disks / parity levels) and stripe-level (per-stripe
victim sets chosen on the independently parsed block map).  All choices derive from integers
drawn by Hypothesis, so a case is a pure function of its replay file."""
import os
import random
import shutil

import cfparse

DATA_SHAPES = ["empty", "delete_some", "truncate_some", "grow_some", "flip_some", "mixed"]
DATA_SHAPES_ERASURE = ["empty", "delete_some", "truncate_some", "grow_some"]
PAR_SHAPES = ["delete", "truncate", "garbage", "flip_some", "delete_one_split", "zero_len"]
PAR_SHAPES_ERASURE = ["delete", "truncate", "delete_one_split", "zero_len"]


def parity_locate(arr, c, lev, pos):
    """(path, offset) of logical parity block `pos` of level `lev` per the recorded split sizes"""
    par = c.parities.get(lev)
    paths = arr.parity_paths(lev)
    bs = c.block_size
    if par is None:
        return None
    if par.kind == "P" or par.splits[0].size is None:
        return paths[0], pos * bs
    off = pos * bs
    for s, sp in enumerate(par.splits):
        if sp.size is None:
            return (paths[s], off) if s < len(paths) else None
        if off < sp.size:
            return (paths[s], off) if s < len(paths) else None
        off -= sp.size
    return None


def differ(old, rnd):
    new = bytearray(rnd.randbytes(len(old)))
    if bytes(new) == old:
        new[0] ^= 0xFF
    return bytes(new)


def corrupt_file_block(w, disk, rel, idx, bs, rnd, shape="block"):
    p = w.full(disk, rel)
    st = os.lstat(p)
    with open(p, "r+b") as f:
        f.seek(idx * bs)
        old = f.read(bs)
        if not old:
            return False
        if shape == "bit":
            b = bytearray(old)
            k = rnd.randrange(len(b))
            b[k] ^= 1 << rnd.randrange(8)
            new = bytes(b)
        elif shape == "byte":
            b = bytearray(old)
            k = rnd.randrange(len(b))
            b[k] = (b[k] + 1 + rnd.randrange(255)) & 0xFF
            new = bytes(b)
        elif shape == "zero":
            new = b"\0" * len(old)
            if new == old:
                return False
        else:
            new = differ(old, rnd)
        f.seek(idx * bs)
        f.write(new)
    os.utime(p, ns=(st.st_atime_ns, st.st_mtime_ns))
    return True


def corrupt_parity_block(arr, c, lev, pos, rnd, shape="block"):
    loc = parity_locate(arr, c, lev, pos)
    if not loc:
        return False
    path, off = loc
    if not os.path.exists(path):
        return False
    bs = c.block_size
    with open(path, "r+b") as f:
        f.seek(off)
        old = f.read(bs)
        if len(old) < bs:
            return False
        if shape == "bit":
            b = bytearray(old)
            k = rnd.randrange(bs)
            b[k] ^= 1 << rnd.randrange(8)
            new = bytes(b)
        elif shape == "zero":
            new = b"\0" * bs
            if new == old:
                return False
        else:
            new = differ(old, rnd)
        f.seek(off)
        f.write(new)
    return True


def swap_file_blocks(w, a, b, bs):
    """swap the contents of two data blocks (disk, rel, idx) of equal length and different bytes, keeping time-stamps.
    -> True if swapped"""
    (d1, r1, i1), (d2, r2, i2) = a, b
    p1, p2 = w.full(d1, r1), w.full(d2, r2)
    st1, st2 = os.lstat(p1), os.lstat(p2)
    with open(p1, "rb") as f:
        f.seek(i1 * bs)
        x = f.read(bs)
    with open(p2, "rb") as f:
        f.seek(i2 * bs)
        y = f.read(bs)
    if not x or len(x) != len(y) or x == y:
        return False
    with open(p1, "r+b") as f:
        f.seek(i1 * bs)
        f.write(y)
    with open(p2, "r+b") as f:
        f.seek(i2 * bs)
        f.write(x)
    os.utime(p1, ns=(st1.st_atime_ns, st1.st_mtime_ns))
    os.utime(p2, ns=(st2.st_atime_ns, st2.st_mtime_ns))
    return True


def swap_parity_blocks(arr, c, lev, pos1, pos2):
    """swap two blocks of one parity level -> True if swapped (both present, different bytes)"""
    l1, l2 = parity_locate(arr, c, lev, pos1), parity_locate(arr, c, lev, pos2)
    if not l1 or not l2 or not os.path.exists(l1[0]) or not os.path.exists(l2[0]):
        return False
    bs = c.block_size
    with open(l1[0], "rb") as f:
        f.seek(l1[1])
        x = f.read(bs)
    with open(l2[0], "rb") as f:
        f.seek(l2[1])
        y = f.read(bs)
    if len(x) < bs or len(y) < bs or x == y:
        return False
    with open(l1[0], "r+b") as f:
        f.seek(l1[1])
        f.write(y)
    with open(l2[0], "r+b") as f:
        f.seek(l2[1])
        f.write(x)
    return True


def decode_devices(ints, cfg, nmax, allow_silent=True):
    """ints: list of (a, b) pairs -> list of victims (<= nmax distinct devices)"""
    nd, lv = cfg["ndisks"], cfg["levels"]
    devs = ["d%d" % (i + 1) for i in range(nd) if "d%d" % (i + 1) not in cfg.get("removed", [])] + ["p%d" % l for l in range(lv)]
    out, seen = [], set()
    for a, b in ints:
        if len(out) >= nmax:
            break
        dev = devs[a % len(devs)]
        if dev in seen:
            continue
        seen.add(dev)
        if dev[0] == "d":
            tab = DATA_SHAPES if allow_silent else DATA_SHAPES_ERASURE
        else:
            tab = PAR_SHAPES if allow_silent else PAR_SHAPES_ERASURE
        out.append({"dev": dev, "shape": tab[b % len(tab)]})
    return out


def apply_devices(w, c, victims, seed, keep_content=None, flippable=None):
    """apply device-level damage. keep_content: path of a content copy that must survive."""
    rnd = random.Random(seed)
    arr = w.arr
    bs = arr.bs
    ledger = {"data_blocks_hit": 0, "files_removed": 0, "parity_hit": 0, "victims": victims}
    zeroed = set()
    for v in victims:
        dev, shape = v["dev"], v["shape"]
        if dev[0] == "d":
            top = arr.disk_dirb(dev)
            files = w.list_files(dev)
            if shape == "mixed":
                per = ["delete_some", "truncate_some", "flip_some", "grow_some"]
            if shape == "empty":
                for n in os.listdir(top):
                    full = os.path.join(top, n)
                    if keep_content and os.fsencode(keep_content) == full:
                        continue
                    if os.path.isdir(full) and not os.path.islink(full):
                        shutil.rmtree(full)
                    else:
                        os.unlink(full)
                ledger["files_removed"] += len(files)
                ledger["data_blocks_hit"] += 1 if files else 0
                continue
            for rel in files:
                sh = shape if shape != "mixed" else per[rnd.randrange(4)]
                if rnd.random() < 0.4 and shape != "mixed":
                    continue
                p = w.full(dev, rel)
                st = os.lstat(p)
                if st.st_nlink > 1 and sh != "delete_some":
                    continue  # writing through a hard link would hit two recorded names; keep the model simple
                if sh == "delete_some":
                    os.unlink(p)
                    ledger["files_removed"] += 1
                    ledger["data_blocks_hit"] += 1 if st.st_size else 0
                elif sh == "truncate_some":
                    if st.st_size == 0:
                        continue
                    n = rnd.randrange(st.st_size)
                    os.truncate(p, n)
                    os.utime(p, ns=(st.st_atime_ns, st.st_mtime_ns))
                    ledger["data_blocks_hit"] += 1
                elif sh == "grow_some":
                    with open(p, "ab") as f:
                        f.write(rnd.randbytes(1 + rnd.randrange(2 * bs)))
                    os.utime(p, ns=(st.st_atime_ns, st.st_mtime_ns))
                elif sh == "flip_some":
                    nblk = (st.st_size + bs - 1) // bs
                    for i in range(nblk):
                        if flippable is not None and (dev, rel, i) not in flippable:
                            continue
                        if rnd.random() < 0.5:
                            if corrupt_file_block(w, dev, rel, i, bs, rnd, shape=rnd.choice(["bit", "byte", "block", "zero"])):
                                ledger["data_blocks_hit"] += 1
        else:
            lev = int(dev[1:])
            paths = arr.parity_paths(lev)
            if shape == "delete":
                for p in paths:
                    if os.path.exists(p):
                        os.unlink(p)
            elif shape == "zero_len":
                for p in paths:
                    if os.path.exists(p):
                        os.truncate(p, 0)
            elif shape == "delete_one_split":
                ex = [p for p in paths if os.path.exists(p)]
                if ex:
                    os.unlink(ex[rnd.randrange(len(ex))])
            elif shape == "truncate":
                for p in paths:
                    if os.path.exists(p) and os.path.getsize(p):
                        os.truncate(p, rnd.randrange(os.path.getsize(p)))
            elif shape == "garbage":
                for p in paths:
                    if os.path.exists(p):
                        n = os.path.getsize(p)
                        with open(p, "r+b") as f:
                            f.write(rnd.randbytes(n))
            elif shape == "flip_some":
                for pos in range(c.blockmax):
                    if rnd.random() < 0.5:
                        # independent corruption only: two levels zeroed at the same stripe agree with each other (they are
                        # the parity of all-zero data) and are not a detectable damage for a block without a recorded hash
                        sh = rnd.choice(["bit", "block", "zero"])
                        if sh == "zero" and pos in zeroed:
                            sh = "block"
                        if sh == "zero":
                            zeroed.add(pos)
                        corrupt_parity_block(arr, c, lev, pos, rnd, shape=sh)
            ledger["parity_hit"] += 1
    return ledger


def apply_stripes(w, c, seed, nmax, density=0.7, silent=True):
    """per stripe choose <= nmax victims among its data blocks and parity levels and corrupt them.
    silent=False: data victims are whole files deleted (handled by caller); only used with hash >= 8"""
    rnd = random.Random(seed)
    arr = w.arr
    tab = cfparse.position_table(c)
    levels = arr.cfg["levels"]
    ledger = {"stripes_hit": 0, "data_blocks_hit": 0, "parity_blocks_hit": 0, "max_per_stripe": 0, "hit": []}
    for pos, row in sorted(tab.items()):
        if rnd.random() > density:
            continue
        cands = [("d", name) for name, v in row.items() if v[0] == cfparse.BLK and v[2] is not None] + [("p", l) for l in range(levels)]
        k = rnd.choice([nmax, nmax, max(1, nmax - 1), 1])
        k = min(k, len(cands))
        vict = rnd.sample(cands, k)
        n = 0
        for kind, x in vict:
            if kind == "d":
                st, h, f, idx = row[x]
                dn = x.decode()
                p = w.full(dn, f.sub)
                if not os.path.exists(p) or os.lstat(p).st_nlink > 1:
                    continue
                if corrupt_file_block(w, dn, f.sub, idx, c.block_size, rnd, shape=rnd.choice(["bit", "byte", "block", "zero"])):
                    ledger["data_blocks_hit"] += 1
                    n += 1
            else:
                if corrupt_parity_block(arr, c, x, pos, rnd, shape=rnd.choice(["bit", "block", "zero"])):
                    ledger["parity_blocks_hit"] += 1
                    n += 1
        if n:
            ledger["stripes_hit"] += 1
            ledger["max_per_stripe"] = max(ledger["max_per_stripe"], n)
    return ledger
