"""The C06 oracle: judges what is on disk (content file + parity files) against the bytes the
harness itself wrote (version store), with independent parser, hashes and GF(2^8)."""
import numpy as np

import cfparse
import gf256
import hashes
from cfparse import BLK, CHG, REP, DELETED


class VersionStore(object):
    """(disk, sub, size, mtime_ns) -> bytes of every file version the harness legitimately created"""

    def __init__(self):
        self.v = {}

    AMBIGUOUS = object()

    def put(self, disk, sub, data, mtime_ns):
        key = (disk, sub, len(data), mtime_ns)
        old = self.v.get(key)
        if old is not None and old is not self.AMBIGUOUS and old != data:
            # two different byte strings under one identity (e.g. a silently damaged twin moved over a file that has the same
            # size and time-stamp): the tool cannot tell them apart and neither can the harness say which one "the" version is
            self.v[key] = self.AMBIGUOUS
            return
        if old is self.AMBIGUOUS:
            return
        self.v[key] = data

    def get(self, disk, sub, size, mtime_sec, mtime_nsec):
        if mtime_nsec is not None and mtime_nsec >= 0:
            r = self.v.get((disk, sub, size, mtime_sec * 1000000000 + mtime_nsec))
            return None if r is self.AMBIGUOUS else r
        # nanoseconds not recorded: match on seconds
        cands = [d for (dk, s, sz, mt), d in self.v.items() if dk == disk and s == sub and sz == size and mt // 1000000000 == mtime_sec]
        if any(c is self.AMBIGUOUS for c in cands):
            return None
        if len(cands) >= 1 and all(c == cands[0] for c in cands):
            return cands[0]
        return None


def parity_stream(arr, content, lev):
    """logical parity bytes of a level, following the recorded split sizes; returns (bytes, problems)"""
    problems = []
    files = arr.read_parity(lev)
    par = content.parities.get(lev)
    bs = content.block_size
    if par is None:
        return b"", ["level %d has no record in the content file" % lev]
    if par.kind == "P" or len(par.splits) == 1 and par.splits[0].size is None:
        return files[0] or b"", problems
    out = []
    for s, sp in enumerate(par.splits):
        if sp.size is None:
            # size not recorded yet: the whole file counts
            out.append(files[s] or b"" if s < len(files) else b"")
            continue
        if sp.size % bs != 0:
            problems.append("level %d split %d: recorded size %d is not a multiple of the block size" % (lev, s, sp.size))
        data = files[s] if s < len(files) else None
        if sp.size == 0:
            continue
        if data is None or len(data) < sp.size:
            problems.append("level %d split %d: file shorter (%s) than recorded size %d" % (lev, s, None if data is None else len(data), sp.size))
            data = (data or b"") + b"\0" * (sp.size - len(data or b""))
        out.append(data[:sp.size])
    return b"".join(out), problems


def block_bytes(data, idx, bs):
    b = data[idx * bs:(idx + 1) * bs]
    if len(b) < bs:
        b = b + b"\0" * (bs - len(b))
    return b


def check(arr, store, content_bytes=None, exempt_pos=(), exempt_parity=(), check_rep_hash=False, levels=None):
    """returns (problems, stats).  problems = list of strings (empty when the oracle holds)."""
    stats = {"stripes_checked": 0, "blocks_hashed": 0, "synced_positions": 0, "unknown_versions": 0}
    if content_bytes is None:
        content_bytes = arr.read_content()
    if content_bytes is None:
        return [], stats
    try:
        c = cfparse.parse(content_bytes)
    except cfparse.ContentError as e:
        return ["content file not accepted by the independent parser: %s" % e], stats
    problems = []
    bs = c.block_size
    if bs != arr.bs:
        problems.append("block size %d differs from configuration %d" % (bs, arr.bs))
    hs = c.hash_size
    column = {m.name: m.position for m in c.maps}
    levels = arr.cfg["levels"] if levels is None else levels
    mode3 = "vandermonde" if arr.cfg.get("zparity") else "cauchy"

    # (i) file block counts (positions/overlaps are checked by the parser)
    for name, d in c.disks.items():
        for f in d.files:
            want = (f.size + bs - 1) // bs
            if len(f.blocks) != want:
                problems.append("file %r has %d blocks, size %d needs %d" % (f.sub, len(f.blocks), f.size, want))

    # (ii) hashes of BLK blocks equal the hash of the recorded version.  The hash of a copy-detected (REP) block is provisional:
    # it is the hash of the file the block was taken for a copy of, and may legitimately differ from the bytes (a decoy the tool
    # refuses with 'Unexpected data change' stays in that state); it is judged only on request (check_rep_hash)
    versions = {}
    for name, d in c.disks.items():
        dn = name.decode()
        for f in d.files:
            data = store.get(dn, f.sub, f.size, f.mtime_sec, f.mtime_nsec)
            versions[(name, f.sub)] = data
            if data is None:
                stats["unknown_versions"] += 1
                continue
            for i, (pos, st, h) in enumerate(f.blocks):
                if st == BLK or (st == REP and check_rep_hash):
                    info = c.info[pos]
                    kind, seed = c.hash
                    if st == BLK and info is not None and info.rehash:
                        kind, seed = c.prevhash
                    want = hashes.memhash(kind, seed, data[i * bs:(i + 1) * bs])[:hs]
                    stats["blocks_hashed"] += 1
                    if st == REP and want != h and c.prevhash and c.prevhash[0] is not None:
                        # a copy-detected block carries the hash of its source as it was when the copy was detected: during a
                        # hash migration that may be the previous kind (the tool verifies it with the kind its stripe's flag says)
                        pk, ps = c.prevhash
                        if hashes.memhash(pk, ps, data[i * bs:(i + 1) * bs])[:hs] == h:
                            continue
                    if want != h and pos not in exempt_pos:
                        problems.append("disk %s file %r block %d (pos %d, %s): recorded hash %s is not the hash of the recorded version (%s)" % (
                            dn, f.sub, i, pos, st, h.hex(), want.hex()))

    # (iii) parity equation on stripes recorded as synced
    tab = cfparse.position_table(c)
    streams = {}
    for lev in range(levels):
        s, pr = parity_stream(arr, c, lev)
        streams[lev] = s
        problems.extend(pr)
    for pos, row in sorted(tab.items()):
        if not all(v[0] == BLK for v in row.values()):
            continue
        stats["synced_positions"] += 1
        if pos in exempt_pos:
            continue
        cols, blks = [], []
        known = True
        for name, (st, h, f, idx) in row.items():
            data = versions.get((name, f.sub))
            if data is None:
                known = False
                break
            cols.append(column[name])
            blks.append(np.frombuffer(block_bytes(data, idx, bs), dtype=np.uint8))
        if not known:
            continue
        stats["stripes_checked"] += 1
        for lev in range(levels):
            if (lev, pos) in exempt_parity:
                continue
            A = gf256.VANDERMONDE if (lev == 2 and mode3 == "vandermonde") else gf256.CAUCHY
            acc = np.zeros(bs, dtype=np.uint8)
            for col, blk in zip(cols, blks):
                acc ^= gf256.MUL[A[lev, col]][blk]
            have = streams[lev][pos * bs:(pos + 1) * bs]
            if len(have) < bs:
                problems.append("level %d: parity too small for synced stripe %d (have %d bytes)" % (lev, pos, len(streams[lev])))
            elif have != acc.tobytes():
                problems.append("level %d stripe %d: parity differs from generator applied to the synced blocks" % (lev, pos))
    return problems, stats
