"""World = scratch array + ground truth kept by the harness (version store, fake clock) +
an interpreter for JSON-serialisable programs of file-system steps and commands.

Every step is a dict {"op": ...}.  Steps refer to existing objects by late-bound indices
(`fi` = index modulo the number of current files of that disk), so that removing steps
while shrinking keeps a program meaningful."""
import os
import shutil
import random
import stat

import cfparse
import parityoracle
from sandbox import Array, default_cfg


def gen_bytes(seed, size, kind=0):
    if size == 0:
        return b""
    r = random.Random(seed)
    if kind == 1:
        return b"\0" * size
    if kind == 2:
        pat = r.randbytes(r.choice([1, 3, 64]))
        return (pat * (size // len(pat) + 1))[:size]
    if kind == 3:  # mostly zero with islands
        b = bytearray(size)
        for _ in range(1 + size // 700):
            p = r.randrange(size)
            b[p] = r.randrange(1, 256)
        return bytes(b)
    return r.randbytes(size)


def nb(name):
    """program names are latin-1 strings; the file system sees bytes"""
    return name.encode("latin-1") if isinstance(name, str) else name


RESERVED_PREFIX = b"content."


class World(object):
    def __init__(self, cfg, binary, shim=None, binary_san=None):
        self.arr = Array(cfg, binary, shim=shim)
        self.binary_san = binary_san
        self.store = parityoracle.VersionStore()
        self.clock = 1600000000 * 10**9
        self.damaged_pos = set()      # stripe positions the harness damaged (data) and nobody repaired yet
        self.damaged_par = set()      # (level, pos)
        self.events = []              # what happened, for evidence samples / replay reports
        self.rehashed = False         # a rehash command ran in this world
        self.last_file = None         # (disk, rel) of the file touched by the latest file-system step
        self._forced = None
        self.nsteps = 0
        self.trash = []               # (disk, rel, bytes, mtime_ns) of files the harness deleted: material for "restore from backup"

    # ------------------------------------------------------------------ clock / identity
    def tick(self, ns_zero=False):
        self.clock += random.Random(self.clock).randrange(1, 4) * 10**9
        t = (self.clock // 10**9) * 10**9
        if not ns_zero:
            t += 1 + (self.clock // 10**9 * 7919) % 999999998
        self.clock = t
        return t

    # ------------------------------------------------------------------ tree access
    def ddir(self, disk):
        return self.arr.disk_dirb("d%d" % (disk + 1)) if isinstance(disk, int) else self.arr.disk_dirb(disk)

    def dname(self, disk):
        return "d%d" % (disk + 1) if isinstance(disk, int) else disk

    def ndisk(self, disk):
        return disk % self.arr.cfg["ndisks"]

    def list_files(self, disk):
        """sorted relative paths (bytes) of regular files of a disk, content copies excluded"""
        top = self.ddir(disk)
        out = []
        for dp, dn, fn in os.walk(top):
            for n in fn:
                full = os.path.join(dp, n)
                rel = os.path.relpath(full, top)
                if rel.startswith(RESERVED_PREFIX) or rel.endswith(b".lock") or rel.endswith(b".tmp"):
                    continue
                st = os.lstat(full)
                if stat.S_ISREG(st.st_mode):
                    out.append(rel)
        return sorted(out)

    def list_dirs(self, disk):
        top = self.ddir(disk)
        out = []
        for dp, dn, fn in os.walk(top):
            for n in dn:
                full = os.path.join(dp, n)
                if not os.path.islink(full):
                    out.append(os.path.relpath(full, top))
        return sorted(out)

    def pick(self, disk, fi):
        if self._forced is not None:
            return self._forced
        fl = self.list_files(disk)
        if not fl:
            return None
        return fl[fi % len(fl)]

    def full(self, disk, rel):
        return os.path.join(self.ddir(disk), rel)

    def write_file(self, disk, rel, data, mtime_ns=None, register=True):
        p = self.full(disk, rel)
        parent = os.path.dirname(p)
        try:
            os.makedirs(parent, exist_ok=True)
        except (FileExistsError, NotADirectoryError):
            return False
        if os.path.isdir(p) and not os.path.islink(p):
            return False
        if os.path.islink(p):
            os.unlink(p)
        if os.path.exists(p) and os.lstat(p).st_nlink > 1:
            os.unlink(p)  # never write through a hard link: keep every name's history simple
        with open(p, "wb") as f:
            f.write(data)
        if mtime_ns is None:
            mtime_ns = self.tick()
        os.utime(p, ns=(mtime_ns, mtime_ns))
        if register:
            self.store.put(self.dname(disk), rel, data, mtime_ns)
        return True

    def read_file(self, disk, rel):
        with open(self.full(disk, rel), "rb") as f:
            return f.read()

    def mtime_ns(self, disk, rel):
        return os.lstat(self.full(disk, rel)).st_mtime_ns

    def prune_empty_parents(self, disk, rel):
        # leave directories in place: empty directories are part of the tree the tool records
        pass

    # ------------------------------------------------------------------ file-system steps
    def fs_step(self, s):
        """apply one file-system step; steps that cannot apply to the current tree (path through a
        symlink or a file, name too long, ...) are skipped and return None"""
        self._forced = None
        if s.get("recent") and self.last_file is not None and "fi" in s:
            # act on the file the previous steps created / changed / copied / moved (chains of operations on one file)
            ld, lrel = self.last_file
            try:
                if os.path.isfile(self.full(ld, lrel)) and not os.path.islink(self.full(ld, lrel)):
                    s = dict(s, disk=ld)
                    self._forced = lrel
            except OSError:
                pass
        try:
            ev = self._fs_step(s)
        except OSError:
            ev = None
        self._forced = None
        if ev:
            k = ev[0]
            if k in ("create", "append", "truncate", "rewrite", "rewrite_same_second", "touch", "undelete"):
                self.last_file = (ev[1], ev[2])
            elif k in ("rename", "move", "copy"):
                self.last_file = (ev[3], ev[4])
            elif k in ("delete", "file_to_dir", "file_to_link"):
                self.last_file = None
        return ev

    def _fs_step(self, s):
        op = s["op"]
        d = self.ndisk(s.get("disk", 0))
        ev = None
        if op == "create":
            rel = nb(s["name"])
            if rel.startswith(RESERVED_PREFIX):
                return None
            data = gen_bytes(s.get("cseed", 0), s["size"], s.get("kind", 0))
            if "same_as" in s:  # content identical to an existing file (dup / copy material)
                src = self.pick(self.ndisk(s["same_as"][0]), s["same_as"][1])
                if src is not None:
                    data = self.read_file(self.ndisk(s["same_as"][0]), src)
            ok = self.write_file(d, rel, data, mtime_ns=self.tick(ns_zero=s.get("ns0", False)))
            ev = ("create", d, rel, len(data)) if ok else None
        elif op == "append":
            rel = self.pick(d, s["fi"])
            if rel is None:
                return None
            data = self.read_file(d, rel) + gen_bytes(s.get("cseed", 0), s["size"], s.get("kind", 0))
            self.write_file(d, rel, data)
            ev = ("append", d, rel, len(data))
        elif op == "truncate":
            rel = self.pick(d, s["fi"])
            if rel is None:
                return None
            old = self.read_file(d, rel)
            n = s["size"] if s["size"] < len(old) else len(old) // 2
            self.write_file(d, rel, old[:n])
            ev = ("truncate", d, rel, n)
        elif op == "rewrite":   # same size, new bytes, new time-stamp
            rel = self.pick(d, s["fi"])
            if rel is None:
                return None
            old = self.read_file(d, rel)
            mt = self.tick(ns_zero=True) if s.get("ns0") else None
            if s.get("same_sec"):
                # modified again within the same second: only the sub-second part of the time-stamp changes
                omt = self.mtime_ns(d, rel)
                mt = (omt // 10**9) * 10**9 + ((omt % 10**9) + 1 + s.get("cseed", 0) % 999999000) % 10**9
                if mt % 10**9 == 0:
                    mt += 1
            new = gen_bytes(s.get("cseed", 0) + 1, len(old), s.get("kind", 0))
            if new == old and old:
                new = bytes([old[0] ^ 0x55]) + old[1:]
            self.write_file(d, rel, new, mtime_ns=mt)
            ev = ("rewrite", d, rel, len(old)) if not s.get("same_sec") else ("rewrite_same_second", d, rel, len(old))
        elif op in ("touch", "touch_file"):     # time-stamp only
            rel = self.pick(d, s["fi"])
            if rel is None:
                return None
            self.write_file(d, rel, self.read_file(d, rel), mtime_ns=self.tick(ns_zero=s.get("ns0", False)))
            ev = ("touch", d, rel)
        elif op == "delete":
            rel = self.pick(d, s["fi"])
            if rel is None:
                return None
            self.trash.append((d, rel, self.read_file(d, rel), self.mtime_ns(d, rel)))
            os.unlink(self.full(d, rel))
            ev = ("delete", d, rel)
        elif op == "empty_disk":
            # everything on the disk goes (a disk replaced by an empty one); content copies kept on it stay
            top = self.ddir(d)
            n = 0
            for rel in self.list_files(d):
                self.trash.append((d, rel, self.read_file(d, rel), self.mtime_ns(d, rel)))
            for name in os.listdir(top):
                if name.startswith(RESERVED_PREFIX) or name.endswith(b".lock") or name.endswith(b".tmp"):
                    continue
                full = os.path.join(top, name)
                if os.path.islink(full) or not os.path.isdir(full):
                    os.unlink(full)
                else:
                    shutil.rmtree(full)
                n += 1
            ev = ("empty_disk", d, n) if n else None
        elif op == "undelete":
            # restore a previously deleted file with identical bytes (from a backup): new or preserved time-stamp
            if not self.trash:
                return None
            td, rel, data, mt = self.trash[-1 - (s["fi"] % len(self.trash))]   # fi 0 = the file deleted last
            if os.path.lexists(self.full(td, rel)):
                return None
            if not self.write_file(td, rel, data, mtime_ns=mt if s.get("keep_mtime") else None):
                return None
            ev = ("undelete", td, rel, len(data))
        elif op in ("rename", "move", "copy"):
            rel = self.pick(d, s["fi"])
            if rel is None:
                return None
            d2 = self.ndisk(s.get("disk2", s.get("disk", 0))) if op != "rename" else d
            new = rel if s.get("keep_name") else nb(s["name"])
            if new.startswith(RESERVED_PREFIX) or (d2 == d and new == rel):
                return None
            data = self.read_file(d, rel)
            mt = self.mtime_ns(d, rel)
            if os.path.lexists(self.full(d2, new)) and os.path.isdir(self.full(d2, new)):
                return None
            if not self.write_file(d2, new, data, mtime_ns=mt):
                return None
            if op != "copy":
                os.unlink(self.full(d, rel))
            ev = (op, d, rel, d2, new)
        elif op == "symlink":
            p = self.full(d, nb(s["name"]))
            if os.path.lexists(p):
                if os.path.isdir(p) and not os.path.islink(p):
                    return None
                os.unlink(p)
            try:
                os.makedirs(os.path.dirname(p), exist_ok=True)
                os.symlink(nb(s["target"]), p)
            except (FileExistsError, NotADirectoryError):
                return None
            ev = ("symlink", d, nb(s["name"]))
        elif op == "hardlink":
            rel = self.pick(d, s["fi"])
            if rel is None:
                return None
            name = nb(s["name"])
            kind = "hardlink"
            if s.get("relink"):
                sl = []
                for root, dirs, names in os.walk(self.ddir(d)):
                    for n in sorted(dirs + names):
                        q = os.path.join(root, n)
                        if os.path.islink(q):
                            sl.append(os.path.relpath(q, self.ddir(d)))
                    dirs.sort()
                if sl:
                    name = sl[s.get("li", 0) % len(sl)]
                    os.unlink(self.full(d, name))
                    kind = "relink"
            p = self.full(d, name)
            if os.path.lexists(p):
                return None
            try:
                os.makedirs(os.path.dirname(p), exist_ok=True)
                os.link(self.full(d, rel), p)
            except (FileExistsError, NotADirectoryError):
                return None
            self.store.put(self.dname(d), name, self.read_file(d, rel), self.mtime_ns(d, rel))
            ev = (kind, d, rel, name)
        elif op == "mkdir":
            p = self.full(d, nb(s["name"]))
            try:
                os.makedirs(p, exist_ok=True)
            except (FileExistsError, NotADirectoryError):
                return None
            ev = ("mkdir", d, nb(s["name"]))
        elif op == "rmdir":
            dl = [x for x in self.list_dirs(d) if not os.listdir(self.full(d, x))]
            if not dl:
                return None
            os.rmdir(self.full(d, dl[s["fi"] % len(dl)]))
            ev = ("rmdir", d, dl[s["fi"] % len(dl)])
        elif op == "file_to_dir":  # replace a file by a directory of the same name (with a file inside)
            rel = self.pick(d, s["fi"])
            if rel is None:
                return None
            os.unlink(self.full(d, rel))
            os.mkdir(self.full(d, rel))
            self.write_file(d, os.path.join(rel, b"inner"), gen_bytes(s.get("cseed", 0), s.get("size", 10)))
            ev = ("file_to_dir", d, rel)
        elif op == "file_to_link":
            rel = self.pick(d, s["fi"])
            if s.get("prefer_empty"):
                empties = [r for r in self.list_files(d) if os.path.getsize(self.full(d, r)) == 0]
                if empties:
                    rel = empties[s["fi"] % len(empties)]
            if rel is None:
                return None
            target = b"somewhere"
            if s.get("target_fi") is not None:
                others = [r for r in self.list_files(d) if r != rel and os.path.getsize(self.full(d, r)) > 0]
                if others:
                    t = others[s["target_fi"] % len(others)]
                    target = os.path.relpath(self.full(d, t), os.path.dirname(self.full(d, rel)))
            os.unlink(self.full(d, rel))
            os.symlink(target, self.full(d, rel))
            ev = ("file_to_link", d, rel, target)
        else:
            raise ValueError("unknown fs op " + op)
        if ev:
            self.events.append(ev)
        return ev

    # ------------------------------------------------------------------ commands
    def cmd(self, command, args=(), **kw):
        if command == "rehash":
            self.rehashed = True
        r = self.arr.run(command, args, **kw)
        self.events.append(("cmd", command, [a if isinstance(a, str) else a.decode("latin-1") for a in args], r.rc))
        return r

    def oracle(self, **kw):
        # a copy-detected block keeps the hash kind of the moment it was detected; once a migration has COMPLETED the previous
        # kind and seed are forgotten and that hash cannot be verified by anybody (the tool then refuses the copy: safe)
        if self.rehashed:
            kw.setdefault("check_rep_hash", False)
        return parityoracle.check(self.arr, self.store, exempt_pos=self.damaged_pos, exempt_parity=self.damaged_par, **kw)

    def content_model(self, i=None):
        data = self.arr.read_content(i)
        if data is None:
            return None
        return cfparse.parse(data)

    def destroy(self):
        self.arr.destroy()
