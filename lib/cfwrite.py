"""Canonical encoder of the content file format (inverse of cfparse.parse), written from the
record layout.  encode(parse(x)) == x must hold for every file written by the tool."""
import struct

from cfparse import BLK, CHG, REP, NSEC_INVALID
from hashes import crc32c

KINDCH = {"murmur3": b"u", "spooky2": b"k", "metro": b"m"}
STATECH = {BLK: b"b", CHG: b"g", REP: b"p"}


def b32(v):
    out = bytearray()
    v &= 0xFFFFFFFF
    while True:
        b = v & 0x7F
        v >>= 7
        if v:
            out.append(b)
        else:
            out.append(b | 0x80)
            return bytes(out)


def b64(v):
    out = bytearray()
    v &= 0xFFFFFFFFFFFFFFFF
    while True:
        b = v & 0x7F
        v >>= 7
        if v:
            out.append(b)
        else:
            out.append(b | 0x80)
            return bytes(out)


def bs(s):
    return b32(len(s)) + s


def encode(c):
    o = bytearray()
    o += b"SNAPCNT%d\n\x03\x00\x00" % c.version
    o += b"z" + b32(c.block_size)
    o += b"x" + b32(c.blockmax)
    if c.version == 3:
        o += b"y" + b32(c.hash_size)
    o += b"c" + KINDCH[c.hash[0]] + c.hash[1]
    if c.prevhash is not None:
        o += b"C" + KINDCH[c.prevhash[0]] + c.prevhash[1]
    for m in c.maps:
        o += b"M" + bs(m.name) + b32(m.position) + b32(m.total_blocks) + b32(m.free_blocks) + bs(m.uuid)
    for lev in sorted(c.parities):
        p = c.parities[lev]
        if p.kind == "Q":
            o += b"Q" + b32(lev) + b32(p.total_blocks) + b32(p.free_blocks) + b32(len(p.splits))
            for s in p.splits:
                o += bs(s.path) + bs(s.uuid) + b64(0xFFFFFFFFFFFFFFFF if s.size is None else s.size)
        else:
            o += b"P" + b32(lev) + b32(p.total_blocks) + b32(p.free_blocks) + bs(p.splits[0].uuid)
    for name in c.disk_order:
        d = c.disks[name]
        for f in d.files:
            o += b"f" + b32(d.mapping) + b64(f.size) + b64(f.mtime_sec)
            o += b32(0 if f.mtime_nsec == NSEC_INVALID else f.mtime_nsec + 1)
            o += b64(f.inode) + bs(f.sub)
            i = 0
            n = len(f.blocks)
            while i < n:
                pos, st, h = f.blocks[i]
                j = i + 1
                while j < n and f.blocks[j][1] == st and f.blocks[j][0] == pos + (j - i):
                    j += 1
                o += STATECH[st] + b32(pos) + b32(j - i)
                for k in range(i, j):
                    o += f.blocks[k][2]
                i = j
        for l in d.links:
            o += (b"s" if l.kind == "symlink" else b"a") + b32(d.mapping) + bs(l.sub) + bs(l.linkto)
        for r in d.dirs:
            o += b"r" + b32(d.mapping) + bs(r)
        o += b"h" + b32(d.mapping)
        pos = 0
        while pos < c.blockmax:
            isdel = pos in d.deleted
            end = pos + 1
            while end < c.blockmax and (end in d.deleted) == isdel:
                end += 1
            o += b32(end - pos)
            if isdel:
                o += b"o"
                for k in range(pos, end):
                    o += d.deleted[k]
            else:
                o += b"O"
            pos = end
    o += b"i" + b32(c.info_oldest or 0)
    pos = 0
    while pos < c.blockmax:
        v = c.info[pos]
        end = pos + 1
        while end < c.blockmax and c.info[end] == v:
            end += 1
        o += b32(end - pos)
        if v is None:
            o += b32(0)
        else:
            flag = 1 | (2 if v.bad else 0) | (4 if v.rehash else 0) | (8 if v.justsynced else 0)
            o += b32(flag)
            t = v.time - (c.info_oldest or 0)
            o += b32(t if t > 0 else 0)
        pos = end
    o += b"N"
    o += struct.pack("<I", crc32c(bytes(o)))
    return bytes(o)
